#!/bin/bash
# Offline setup of the harness: installs the SAT back end (z3 wheel) beside the
# harness and runs the trusted-base self-tests.  Nothing is fetched.
set -e
cd "$(dirname "$(readlink -f "$0")")"
export PYTHONDONTWRITEBYTECODE=1 PIP_NO_INDEX=1
/venv/bin/python - <<'PY'
import sys
sys.path.insert(0, ".")
from rv import driver
ok = driver.ensure_deps()
print("deps:", "z3 wheel installed under .deps" if ok else "z3 unavailable, pure-Python DPLL fallback")
import random
from rv.oracle import sim, cnfeval
sim.selftest(); cnfeval.selftest(random.Random(1))
print("oracle self-tests passed")
PY
mkdir -p evidence replays
