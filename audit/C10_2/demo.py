"""C10_2: tx.ternary fails (and is super-quadratically slow) on a net with large fan-out.

Every and/nand (or/nor) gate that reads a net p gets its own helper named
uid(f"{p}_is_0") (f"{p}_is_1", f"{p}_not_x").  Circuit.uid() answers the k-th
request for the same base name with the suffix 10*7**(k-11), so the helper names
grow by ~0.85 decimal digits per reader of p, every request re-walks the whole
chain, and once the suffix passes Python's integer-to-string limit ternary()
dies with ValueError.

Default mode (about 2 s): the interpreter's limit is set to its smallest legal
value (sys.set_int_max_str_digits(640), same as PYTHONINTMAXSTRDIGITS=640) and
the net has fan-out 900.  With C10_FULL=1 the interpreter's default limit
(4300 digits) is kept and the net has fan-out 5200; that run needs ~9 minutes
on the unchanged tree before the same ValueError appears.

Run as:  PYTHONPATH=<tree>:/tmp/sat_standin python demo.py
exit 1 = defect present, exit 0 = absent.
"""
import os
import sys
import time

import circuitgraph as cg

FULL = os.environ.get("C10_FULL") == "1"
FANOUT = 5200 if FULL else 900
if not FULL:
    sys.set_int_max_str_digits(640)


def main():
    c = cg.Circuit()
    c.add("en", "input")
    c.add("d", "input")
    for i in range(FANOUT):
        c.add(f"g{i}", "and", fanin=["en", "d"] if i == 0 else ["en"], output=True)
    cg.lint(c)
    print(f"circuit: input 'en' read by {FANOUT} and-gates (lint-clean, no blackboxes)")
    print("expected: ternary(c) returns (t, mapping) with mapping[g_i] = 1 iff Kleene")
    print("          evaluation gives X at g_i")

    t0 = time.time()
    try:
        t, mapping = cg.tx.ternary(c)
    except Exception as e:  # noqa
        print(f"happened: after {time.time() - t0:.1f}s ternary(c) raised {type(e).__name__}: {e}")
        return 1
    print(f"ternary(c) returned after {time.time() - t0:.1f}s; "
          f"longest node name has {max(map(len, t.nodes()))} characters")

    # the encoding itself must of course still be right
    bad = 0
    for en, d in [(0, "X"), (1, "X"), ("X", 0), ("X", 1), ("X", "X"), (1, 1), (0, 1)]:
        a = {
            "en": bool(en == 1),
            mapping["en"]: en == "X",
            "d": bool(d == 1),
            mapping["d"]: d == "X",
        }
        r = cg.sat.solve(t, a)
        g0 = 0 if 0 in (en, d) else ("X" if "X" in (en, d) else 1)
        gi = en
        for g, exp in (("g0", g0), (f"g{FANOUT - 1}", gi)):
            if exp == "X":
                ok = r[mapping[g]]
            else:
                ok = (not r[mapping[g]]) and r[g] == bool(exp)
            if not ok:
                print(f"happened: en={en} d={d}: {g} X-rail={r[mapping[g]]} value={r[g]}, expected {exp}")
                bad = 1
    if not bad:
        print("happened: encoding built and correct")
    return bad


if __name__ == "__main__":
    sys.exit(main())
