"""C14_1: the fast Verilog parser cuts the module at the first *substring*
'endmodule', so a legal identifier such as `b_endmodule` (port, wire, instance,
pin or module name) silently truncates the netlist.

Exit status 1 when the defect is present, 0 when it is absent.
"""
import sys

import circuitgraph as cg


def view(c):
    """Inputs, outputs, typed nodes, edges (constants renamed, none used here)."""
    g = c.graph
    nodes = {n: (g.nodes[n].get("type"), c.is_output(n)) for n in g.nodes}
    return {
        "name": c.name,
        "inputs": sorted(c.inputs()),
        "outputs": sorted(c.outputs()),
        "nodes": dict(sorted(nodes.items())),
        "edges": sorted(g.edges),
    }


CASES = {
    "input port named b_endmodule": (
        "top",
        """module top (a, b_endmodule, y);
  input a;
  input b_endmodule;
  output y;
  and g0 (y, a, b_endmodule);
endmodule
""",
    ),
    "internal wire named endmodule_w": (
        "top",
        """module top (a, b, y, z);
  input a;
  input b;
  output y;
  output z;
  wire endmodule_w;
  and g0 (endmodule_w, a, b);
  not g1 (y, endmodule_w);
  or g2 (z, a, b);
endmodule
""",
    ),
    "instance named g_endmodule (as the library's writer lays it out)": (
        "top",
        """module top (a, b, y, z);
  input a;
  input b;

  output y;
  output z;

  wire y;
  wire z;

  and g_endmodule(y, a, b);
  or g_1(z, a, b);
endmodule
""",
    ),
}

bad = 0
for label, (name, text) in CASES.items():
    full = view(cg.io.verilog_to_circuit(text, name))
    try:
        fast = view(cg.io.verilog_to_circuit(text, name, fast=True))
    except Exception as e:  # pylint: disable=broad-except
        fast = f"{type(e).__name__}: {e}"
    print(f"--- {label}")
    print("expected (full parser):", full)
    print("fast parser           :", fast)
    if fast != full:
        bad += 1
        print("=> MISMATCH")
    else:
        print("=> ok")

if bad:
    print(f"\nDEFECT PRESENT: {bad} of {len(CASES)} netlists parsed differently")
    sys.exit(1)
print("\ndefect absent")
sys.exit(0)
