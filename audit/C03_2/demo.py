"""C03_2: a circuit without primary inputs and outputs does not survive the trip.

circuit_to_verilog writes `module top ();` and the reader's grammar rejects an
empty port list.

Run as: PYTHONPATH=<tree>:/tmp/sat_standin python demo.py
Exit 1 when the defect is present, 0 when it is absent.
"""
import os
import sys
import tempfile

import circuitgraph as cg
from circuitgraph.io import circuit_to_verilog, verilog_to_circuit

FF = cg.BlackBox("ff", ["D"], ["Q"])


def ring():
    # a self-contained register loop: q -> not -> ff.D, ff.Q -> q ; no ports at all
    c = cg.Circuit("top")
    c.add("q", "buf")
    c.add("nq", "not", fanin="q")
    c.add_blackbox(FF, "u1", {"D": "nq", "Q": "q"})
    return c


def const_into_bb():
    # a constant feeding a blackbox, output pin left unconnected
    c = cg.Circuit("top")
    c.add("k", "1")
    c.add_blackbox(FF, "u1", {"D": "k"})
    return c


def empty():
    return cg.Circuit("top")


def describe(c):
    return (
        c.name,
        sorted(c.nodes()),
        sorted(c.edges()),
        sorted((n, c.type(n), c.is_output(n)) for n in c.nodes()),
        sorted((k, v.name) for k, v in c.blackboxes.items()),
    )


def interface(c):
    """What the statement promises even with constants."""
    pins = {}
    for k, bb in c.blackboxes.items():
        for p in bb.inputs():
            pins[k, p] = sorted(c.fanin(f"{k}.{p}"))
        for p in bb.outputs():
            pins[k, p] = sorted(c.fanout(f"{k}.{p}"))
    return (c.name, c.inputs(), c.outputs(), {k: v.name for k, v in c.blackboxes.items()}, pins)


def main():
    bad = False
    for label, build, exact in (
        ("register ring without ports", ring, True),
        ("constant into blackbox", const_into_bb, False),
        ("empty circuit", empty, True),
    ):
        for behavioral in (False, True):
            c = build()
            cg.lint(c)
            print(f"--- {label}, behavioral={behavioral}")
            print("expected:", "identical graph" if exact else "same name/io/blackbox pins")
            text = ""
            try:
                text = circuit_to_verilog(c, behavioral=behavioral)
                d = verilog_to_circuit(text, c.name, blackboxes=[FF])
                ok = describe(d) == describe(c) if exact else interface(d) == interface(c)
                print("got     :", "as expected" if ok else f"different circuit {describe(d)}")
                bad |= not ok
            except Exception as e:  # noqa: BLE001
                first = str(e).strip().splitlines()[0] if str(e).strip() else ""
                print(f"got     : {type(e).__name__}: {first}")
                print("          header written:", (text.splitlines() or [""])[0])
                bad = True

    c = ring()
    path = os.path.join(tempfile.mkdtemp(), "top.v")
    print("--- register ring through to_file / from_file")
    try:
        cg.to_file(c, path)
        d = cg.from_file(path, blackboxes=[FF])
        ok = describe(d) == describe(c)
        print("got     :", "identical graph" if ok else "different circuit")
        bad |= not ok
    except Exception as e:  # noqa: BLE001
        print(f"got     : {type(e).__name__}: {str(e).strip().splitlines()[0]}")
        bad = True

    print("DEFECT PRESENT" if bad else "defect absent")
    return 1 if bad else 0


if __name__ == "__main__":
    sys.exit(main())
