"""C02_2: a unary operator cannot be applied to a unary expression.

`~~a`, `!~a`, `~!a`, `a & ~~b` ... are legal Verilog ("any nesting of
operators" over ~ and !), but the grammar only allows `~`/`!` in front of an
identifier, a constant or a parenthesis, so such netlists are refused.
"""
import itertools
import sys

import circuitgraph as cg


def evaluate(c, node, env, memo=None):
    """Brute-force evaluation through the public structural API."""
    memo = {} if memo is None else memo
    if node in memo:
        return memo[node]
    t = c.type(node)
    if t == "input":
        v = env[node]
    elif t in ("0", "1"):
        v = int(t)
    else:
        xs = [evaluate(c, f, env, memo) for f in sorted(c.fanin(node))]
        v = {
            "buf": lambda: xs[0],
            "not": lambda: 1 - xs[0],
            "and": lambda: int(all(xs)),
            "nand": lambda: 1 - int(all(xs)),
            "or": lambda: int(any(xs)),
            "nor": lambda: 1 - int(any(xs)),
            "xor": lambda: sum(xs) % 2,
            "xnor": lambda: 1 - sum(xs) % 2,
        }[t]()
    memo[node] = v
    return v


INS = ["a", "b"]
CASES = [
    ("~~a", lambda a, b: a),
    ("!~a", lambda a, b: a),
    ("~!a", lambda a, b: a),
    ("~ ~ ~a", lambda a, b: 1 - a),
    ("a & ~~b", lambda a, b: a & b),
    ("~~a | !~b", lambda a, b: a | b),
    ("a ^ ~~b", lambda a, b: a ^ b),
    ("~~(a & b)", lambda a, b: a & b),
    ("~~1'b1 & a", lambda a, b: a),
]

bad = 0
for expr, ref in CASES:
    src = (
        "module top(a, b, y);\n"
        "  input a, b;\n"
        "  output y;\n"
        f"  assign y = {expr};\n"
        "endmodule\n"
    )
    print(f"assign y = {expr};")
    try:
        circ = cg.io.verilog_to_circuit(src, "top")
    except Exception as e:  # noqa: BLE001
        first = str(e).strip().splitlines()[0] if str(e).strip() else ""
        print("   expected: parsed, y computes the Verilog value")
        print(f"   got     : {type(e).__name__}: {first}")
        bad += 1
        continue
    wrong = None
    if circ.inputs() != set(INS) or circ.outputs() != {"y"}:
        wrong = f"ports {sorted(circ.inputs())} / {sorted(circ.outputs())}"
    else:
        for vs in itertools.product([0, 1], repeat=len(INS)):
            env = dict(zip(INS, vs))
            got = evaluate(circ, "y", env)
            if got != ref(*vs):
                wrong = f"y={got}, expected {ref(*vs)} under {env}"
                break
    if wrong:
        print("   WRONG:", wrong)
        bad += 1
    else:
        print("   ok")

# the same operators are also refused as the port expression of an instance
src = (
    "module top(a, b, y);\n  input a, b;\n  output y;\n"
    "  and g0(y, ~~a, b);\nendmodule\n"
)
print("and g0(y, ~~a, b);")
try:
    circ = cg.io.verilog_to_circuit(src, "top")
    ok = all(
        evaluate(circ, "y", {"a": a, "b": b}) == (a & b)
        for a in (0, 1)
        for b in (0, 1)
    )
    print("   ok" if ok else "   WRONG function")
    bad += not ok
except Exception as e:  # noqa: BLE001
    print("   expected: parsed")
    print(f"   got     : {type(e).__name__}: {str(e).strip().splitlines()[0]}")
    bad += 1

if bad:
    print(f"\nDEFECT PRESENT: {bad} legal expressions with stacked unary operators mishandled")
    sys.exit(1)
print("\nno defect: stacked unary operators parsed correctly")
sys.exit(0)
