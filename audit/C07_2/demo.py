"""Passing the circuit itself as the circuit argument of fill_blackbox /
add_subcircuit (self-referential argument): the method keeps reading the
argument while it mutates self."""
import sys

import circuitgraph as cg


def violations(c):
    """Independent check of the wiring rules of property C07."""
    v = []
    g = c.graph
    for n in g.nodes:
        t = g.nodes[n].get("type")
        fi, fo = set(g.predecessors(n)), set(g.successors(n))
        if t in ("input", "0", "1", "x", "bb_output") and fi:
            v.append(f"fan-in on {t} '{n}': {sorted(fi)}")
        if t in ("buf", "not", "bb_input") and len(fi) > 1:
            v.append(f"{len(fi)} fan-ins on {t} '{n}': {sorted(fi)}")
        if t == "bb_input" and fo:
            v.append(f"fan-out from bb_input '{n}': {sorted(fo)}")
        if t == "bb_output":
            if len(fo) > 1:
                v.append(f"bb_output '{n}' drives {len(fo)} nodes: {sorted(fo)}")
            for f in fo:
                if g.nodes[f].get("type") != "buf":
                    v.append(f"bb_output '{n}' drives non-buf '{f}'")
    return v


def state(c):
    return (
        {n: dict(d) for n, d in c.graph.nodes(data=True)},
        set(c.graph.edges),
        set(c.blackboxes),
    )


def build_fill():
    c = cg.Circuit("m")
    c.add("a", "input")
    c.add("o", "buf", output=True)
    # an instance of a module with the same port names as the circuit itself
    c.add_blackbox(cg.BlackBox("m", ["a"], ["o"]), "bb", {"a": "a", "o": "o"})
    return c


def build_sub():
    c = cg.Circuit("m")
    c.add("a", "input")
    c.add("g", "not", fanin="a", output=True)
    return c


bad = False

# ---------------------------------------------------------------- fill_blackbox
ref = build_fill()
ref.fill_blackbox("bb", ref.copy())  # what one level of instantiation means
c = build_fill()
before = state(c)
print("--- c.fill_blackbox('bb', c)")
print("expected: ValueError with c unchanged, or the same result as")
print(f"          c.fill_blackbox('bb', c.copy()): edges {sorted(ref.edges())}")
try:
    c.fill_blackbox("bb", c)
    print(f"happened: returned normally; edges {sorted(c.edges())}")
    print(f"          types {dict((n, c.type(n)) for n in sorted(c))}")
    ok = state(c) == state(ref)
except ValueError as e:
    print(f"happened: ValueError: {e}")
    ok = state(c) == before
except Exception as e:  # noqa: BLE001
    print(f"happened: {type(e).__name__}: {e}")
    ok = False
for x in violations(c):
    ok = False
    print("  ILLEGAL WIRING:", x)
print("  ->", "ok" if ok else "DEFECT")
bad |= not ok

# --------------------------------------------------------------- add_subcircuit
ref = build_sub()
ref.add_subcircuit(ref.copy(), "u", {"a": "g"})
c = build_sub()
before = state(c)
print("--- c.add_subcircuit(c, 'u', {'a': 'g'})")
print("expected: ValueError with c unchanged (no edge added), or the same result as")
print(f"          c.add_subcircuit(c.copy(), ...): edges {sorted(ref.edges())}")
try:
    c.add_subcircuit(c, "u", {"a": "g"})
    print(f"happened: returned normally; edges {sorted(c.edges())}")
    ok = state(c) == state(ref)
except ValueError as e:
    print(f"happened: ValueError: {e}")
    ok = state(c) == before
except Exception as e:  # noqa: BLE001
    print(f"happened: {type(e).__name__}: {e}")
    print(f"          edges added by the failed call: {sorted(c.edges() - before[1])}")
    print(f"          nodes added by the failed call: {sorted(set(c.nodes()) - set(before[0]))}")
    ok = False
for x in violations(c):
    ok = False
    print("  ILLEGAL WIRING:", x)
print("  ->", "ok" if ok else "DEFECT")
bad |= not ok

sys.exit(1 if bad else 0)
