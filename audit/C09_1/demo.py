"""C09_1: sequential_unroll refuses a circuit that has a flop whose Q pin is unread.

Run as:  PYTHONPATH=<tree>:/tmp/sat_standin python demo.py
exit 1 = defect present, exit 0 = defect absent
"""
import itertools
import sys

import networkx as nx

import circuitgraph as cg
from circuitgraph.utils import lint


def evaluate(c, assign):
    """Brute-force gate evaluation of a blackbox-free circuit."""
    val = {}
    for n in nx.topological_sort(c.graph):
        t = c.type(n)
        fi = [val[f] for f in c.graph.predecessors(n)]
        if t == "input":
            val[n] = assign[n]
        elif t in ("0", "1"):
            val[n] = t == "1"
        elif t == "buf":
            val[n] = fi[0]
        elif t == "not":
            val[n] = not fi[0]
        elif t == "xor":
            val[n] = sum(fi) % 2 == 1
        elif t == "and":
            val[n] = all(fi)
        else:
            raise RuntimeError(t)
    return val


def build():
    """
    module top(clk, a, o);
      dff r0(.CK(clk), .D(d0), .Q(q0));   // ordinary toggle-ish flop
      dff r1(.CK(clk), .D(a),  .Q());     // Q left unconnected
      assign d0 = q0 ^ a;  assign o = q0;
    """
    dff = cg.BlackBox("dff", ["D", "CK"], ["Q"])
    c = cg.Circuit()
    c.add("clk", "input")
    c.add("a", "input")
    c.add("q0", "buf")
    c.add("d0", "xor", fanin=["q0", "a"])
    c.add("o", "buf", fanin="q0", output=True)
    c.add_blackbox(dff, "r0", {"D": "d0", "CK": "clk", "Q": "q0"})
    c.add_blackbox(dff, "r1", {"D": "a", "CK": "clk"})  # r1.Q unread
    lint(c)  # the circuit is lint-clean
    return c


def reference(init, seq):
    """Cycle-accurate simulation: returns per step (o, D of r0, D of r1)."""
    q0, q1 = init
    out = []
    for a in seq:
        d0, d1 = q0 ^ a, a
        out.append((q0, d0, d1))
        q0, q1 = d0, d1
    return out


def main():
    n = 3
    c = build()
    bad = False
    for kwargs in (
        {},
        {"add_flop_outputs": True},
        {"initial_values": "0"},
        {"initial_values": {"r0": "1", "r1": "0"}, "add_flop_outputs": True},
        {"remove_unloaded": False, "add_flop_outputs": True},
    ):
        print(f"sequential_unroll(c, {n}, 'D', 'Q', **{kwargs})")
        print("  expected: unrolled circuit that matches cycle-accurate simulation")
        try:
            uc, m = cg.tx.sequential_unroll(c, n, "D", "Q", **kwargs)
        except Exception as e:  # noqa: BLE001
            print(f"  got     : {type(e).__name__}: {e}")
            bad = True
            continue
        iv = kwargs.get("initial_values")
        ok = True
        for init in itertools.product([False, True], repeat=2):
            if iv == "0":
                init = (False, False)
            elif isinstance(iv, dict):
                init = (iv["r0"] == "1", iv["r1"] == "1")
            for seq in itertools.product([False, True], repeat=n):
                assign = {}
                for i in uc.inputs():
                    if i in m["a"]:
                        assign[i] = seq[m["a"].index(i)]
                    elif i == m["r0_Q"][0]:
                        assign[i] = init[0]
                    elif i == m.get("r1_Q", [None])[0]:
                        assign[i] = init[1]
                    else:
                        assign[i] = False  # clock copies, if kept
                val = evaluate(uc, assign)
                ref = reference(init, seq)
                for t in range(n):
                    got = (val[m["o"][t]], val[m["r0_D"][t]])
                    if got != ref[t][:2]:
                        ok = False
                    # a fix may also drop the dead flop altogether
                    if "r1_D" in m and val[m["r1_D"][t]] != ref[t][2]:
                        ok = False
        exp_outs = set(m["o"])
        if kwargs.get("add_flop_outputs"):
            exp_outs |= set(m["r0_D"]) | set(m.get("r1_D", []))
        if uc.outputs() != exp_outs:
            ok = False
        print("  got     : circuit,", "matches" if ok else "DOES NOT match")
        bad |= not ok
    if bad:
        print("DEFECT PRESENT")
        return 1
    print("defect absent")
    return 0


if __name__ == "__main__":
    sys.exit(main())
