"""C08_1: approx_model_count crashes before handing any DIMACS to the counter
when the circuit's name is not usable as part of a file name (e.g. the escaped
Verilog module name `\\top/core` that the library's own reader accepts).

Run as: PYTHONPATH=<tree>:/tmp/sat_standin /venv/bin/python demo.py
Exits 1 when the defect is present, 0 when it is absent.
"""
import itertools
import os
import shutil
import stat
import sys
import tempfile

STUB = r'''#!%s
# exact projected model counter standing in for approxmc
import itertools, sys
ind, nv, ncl, clauses = [], None, None, []
for line in open(sys.argv[-1]).read().split("\n"):
    line = line.strip()
    if not line:
        continue
    if line.startswith("c ind"):
        toks = line.split()[2:]
        assert toks[-1] == "0"
        ind += [int(t) for t in toks[:-1]]
    elif line.startswith("c"):
        continue
    elif line.startswith("p cnf"):
        nv, ncl = int(line.split()[2]), int(line.split()[3])
    else:
        toks = [int(t) for t in line.split()]
        assert toks[-1] == 0
        clauses.append(toks[:-1])
assert len(clauses) == ncl
proj = set()
for vals in itertools.product([False, True], repeat=nv):
    if all(any(vals[abs(l) - 1] == (l > 0) for l in cl) for cl in clauses):
        proj.add(tuple(vals[v - 1] for v in ind))
print("s mc", len(proj))
''' % sys.executable

VERILOG = r"""
module \top/core (a, b, c, o);
  input a, b, c;
  output o;
  wire w;
  and g0 (w, a, b);
  xor g1 (o, w, c);
endmodule
"""


def expected_count(assumptions):
    """Brute force over the three inputs of the netlist above."""
    n = 0
    for a, b, c in itertools.product([False, True], repeat=3):
        v = {"a": a, "b": b, "c": c, "w": a and b}
        v["o"] = v["w"] != c
        n += all(v[k] == bool(x) for k, x in assumptions.items())
    return n


def main():
    bindir = tempfile.mkdtemp(prefix="c08_1_bin")
    BINDIRS.append(bindir)
    stub = os.path.join(bindir, "approxmc")
    with open(stub, "w") as f:
        f.write(STUB)
    os.chmod(stub, os.stat(stub).st_mode | stat.S_IXUSR)
    os.environ["PATH"] = bindir + os.pathsep + os.environ.get("PATH", "")

    import circuitgraph as cg

    c = cg.io.verilog_to_circuit(VERILOG, r"\top/core")
    cg.lint(c)
    print(f"circuit read from Verilog: name={c.name!r}, nodes={sorted(c.nodes())}")
    assumptions = {"o": True, "a": True}
    exp = expected_count(assumptions)
    exact = cg.sat.model_count(c, assumptions)
    print(f"expected count (brute force) = {exp}; sat.model_count = {exact}")

    bad = False

    # control: the same circuit under a harmless name
    ctrl = c.copy()
    ctrl.name = "top_core"
    got = cg.sat.approx_model_count(ctrl, assumptions)
    print(f"control  name='top_core'   : DIMACS handed to the counter has {got} "
          f"projected models (expected {exp})")
    if got != exp or exact != exp:
        print("unexpected: control run disagrees; not the defect shown here")
        return 1

    for label, circ in (("name from the Verilog reader", c),
                        ("name='bench/c17' set by the user", None),
                        ("very long name (300 chars)", None)):
        if circ is None:
            circ = c.copy()
            circ.name = "bench/c17" if "bench" in label else "n" * 300
        try:
            got = cg.sat.approx_model_count(circ, assumptions)
            ok = got == exp
            print(f"{label}: counter was handed a DIMACS with {got} projected "
                  f"models (expected {exp}) -> {'ok' if ok else 'WRONG'}")
            bad |= not ok
        except Exception as e:  # noqa: BLE001
            print(f"{label}: expected {exp}, but approx_model_count raised "
                  f"{type(e).__name__}: {str(e)[:120]}")
            bad = True

    print("DEFECT PRESENT" if bad else "defect absent")
    return 1 if bad else 0


if __name__ == "__main__":
    BINDIRS = []
    try:
        rc = main()
    finally:
        for d in BINDIRS:
            shutil.rmtree(d, ignore_errors=True)
    sys.exit(rc)
