"""C20_3: bench_to_circuit does not skip '#' comments: gate text inside a comment is
parsed as a real gate, giving phantom undriven nets and extra fanin."""
import sys

import circuitgraph as cg

plain = """# example
INPUT(a)
INPUT(b)
OUTPUT(o)
o = AND(a, b)
"""
commented = """# example
INPUT(a)
INPUT(b)
OUTPUT(o)
# previous revision: o = OR(a, z)
o = AND(a, b)   # t = NOT(o)
"""


def lint_result(c):
    try:
        cg.lint(c)
        return None
    except ValueError as e:
        return str(e)


ref = cg.io.bench_to_circuit(plain, "t")
got = cg.io.bench_to_circuit(commented, "t")
print("without comments: nodes", sorted(ref.nodes()), "fanin(o)", sorted(ref.fanin("o")),
      "lint ->", lint_result(ref) or "clean")
print("with comments   : nodes", sorted(got.nodes()), "fanin(o)", sorted(got.fanin("o")),
      "lint ->", lint_result(got) or "clean")
print("expected: identical circuits (comments carry no netlist content), lint clean")

same = (
    ref.nodes() == got.nodes()
    and ref.edges() == got.edges()
    and all(ref.type(n) == got.type(n) for n in ref.nodes())
)
if not same or lint_result(got) is not None:
    print("DEFECT PRESENT")
    sys.exit(1)
print("defect absent")
sys.exit(0)
