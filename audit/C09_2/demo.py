"""C09_2: sequential_unroll(remove_unloaded=True) deletes a primary output.

A primary input that is itself a primary output (and drives nothing else)
is removed as an "unloaded input", so the output disappears from the
unrolled circuit and from the io map.

Run as:  PYTHONPATH=<tree>:/tmp/sat_standin python demo.py
exit 1 = defect present, exit 0 = defect absent
"""
import itertools
import sys

import networkx as nx

import circuitgraph as cg
from circuitgraph.utils import lint


def evaluate(c, assign):
    """Brute-force gate evaluation of a blackbox-free circuit."""
    val = {}
    for n in nx.topological_sort(c.graph):
        t = c.type(n)
        fi = [val[f] for f in c.graph.predecessors(n)]
        if t == "input":
            val[n] = assign[n]
        elif t in ("0", "1"):
            val[n] = t == "1"
        elif t == "buf":
            val[n] = fi[0]
        elif t == "not":
            val[n] = not fi[0]
        elif t == "xor":
            val[n] = sum(fi) % 2 == 1
        else:
            raise RuntimeError(t)
    return val


def build():
    dff = cg.BlackBox("dff", ["D", "CK"], ["Q"])
    c = cg.Circuit()
    c.add("clk", "input")
    c.add("b", "input")
    c.add("a", "input", output=True)  # input that is also a primary output
    c.add("q", "buf")
    c.add("d", "xor", fanin=["q", "b"])
    c.add("o", "buf", fanin="q", output=True)
    c.add_blackbox(dff, "r0", {"D": "d", "CK": "clk", "Q": "q"})
    lint(c)  # the circuit is lint-clean
    return c


def main():
    n = 2
    c = build()
    print("outputs of c:", sorted(c.outputs()))
    bad = False
    for ru in (True, False):
        uc, m = cg.tx.sequential_unroll(c, n, "D", "Q", ["CK"], remove_unloaded=ru)
        print(f"remove_unloaded={ru}")
        print(f"  expected: io map has {n} nodes for each of the outputs 'a' and 'o',")
        print(f"            {2 * n} outputs in the unrolled circuit")
        print(f"  got     : map keys {sorted(m)}, outputs {sorted(uc.outputs())}")
        if "a" not in m or len(m["a"]) != n or len(uc.outputs()) != 2 * n:
            print("  -> primary output 'a' was deleted")
            bad = True
            continue
        # values: a(t) is the step-t input, o(t) the flop state
        for q0 in (False, True):
            for seq in itertools.product([False, True], repeat=2 * n):
                av, bv = seq[:n], seq[n:]
                assign = {m["r0_Q"][0]: q0}
                for t in range(n):
                    assign[m["a"][t]] = av[t]
                    assign[m["b"][t]] = bv[t]
                    if "clk" in m:
                        assign[m["clk"][t]] = False
                val = evaluate(uc, assign)
                q = q0
                for t in range(n):
                    if val[m["a"][t]] != av[t] or val[m["o"][t]] != q:
                        print("  -> wrong value at step", t)
                        bad = True
                    q = q ^ bv[t]
                    if not uc.is_output(m["a"][t]):
                        bad = True
    if bad:
        print("DEFECT PRESENT")
        return 1
    print("defect absent")
    return 0


if __name__ == "__main__":
    sys.exit(main())
