"""add_subcircuit(c, name) with the circuit itself as the child (duplicating a
circuit inside itself) crashes with KeyError and leaves a half-spliced parent.

Expected: a renamed, io-stripped copy u_* of the original nodes next to the
untouched originals (parent inputs/outputs unchanged), or at the very least a
clean ValueError with the parent left as it was.
"""
import sys

import circuitgraph as cg


def snapshot(c):
    return (
        {n: (c.type(n), c.is_output(n), frozenset(c.fanin(n))) for n in c.nodes()},
        set(c.blackboxes),
    )


def run(with_blackbox):
    c = cg.Circuit("half_adder")
    c.add("a", "input")
    c.add("b", "input")
    c.add("s", "xor", fanin=["a", "b"], output=True)
    c.add("co", "and", fanin=["a", "b"], output=True)
    if with_blackbox:
        c.add("r", "buf", output=True)
        c.add_blackbox(cg.BlackBox("ff", ["d"], ["q"]), "f", {"d": "co", "q": "r"})
    before = snapshot(c)

    # independent model of the documented result
    nodes, bbs = before
    exp_nodes = dict(nodes)
    for n, (t, o, fi) in nodes.items():
        exp_nodes[f"u_{n}"] = (
            "buf" if t == "input" else t,
            False,
            frozenset(f"u_{x}" for x in fi),
        )
    # second copy's carry-in comes from the first copy's carry-out
    t, o, fi = exp_nodes["u_a"]
    exp_nodes["u_a"] = (t, o, fi | {"co"})
    expected = (exp_nodes, bbs | {f"u_{b}" for b in bbs})

    print(f"c.add_subcircuit(c, 'u', {{'a': 'co'}})   (blackbox inside: {with_blackbox})")
    try:
        c.add_subcircuit(c, "u", {"a": "co"})
    except ValueError as e:
        after = snapshot(c)
        if after == before:
            print(f"  refused cleanly with ValueError: {e}")
            return True
        print(f"  ValueError {e}, but the parent was modified")
        return False
    except Exception as e:  # noqa
        after = snapshot(c)
        print(f"  expected: spliced copy u_a, u_b, u_s, u_co; inputs {{a, b}} unchanged")
        print(f"  got     : {type(e).__name__}: {e}")
        print(f"            parent inputs now  {sorted(c.inputs())}")
        print(f"            parent outputs now {sorted(c.outputs())}")
        print(f"            parent unchanged after the failed call: {after == before}")
        return False
    after = snapshot(c)
    if after != expected:
        print("  call returned, but the result differs from the expected splice")
        print(f"  inputs {sorted(c.inputs())} outputs {sorted(c.outputs())}")
        return False
    print("  spliced copy is as expected")
    return True


res = [run(False), run(True)]
if all(res):
    print("OK")
    sys.exit(0)
print("DEFECT: self-instantiation through add_subcircuit crashes / corrupts the parent")
sys.exit(1)
