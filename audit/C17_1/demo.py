"""supergates(construct_supercircuit=True) refuses a single-output circuit whose
output is itself a primary input."""
import sys
import circuitgraph as cg
from circuitgraph import tx

c = cg.Circuit("io")
c.add("a", "input", output=True)      # node that is input and output
c.add("b", "input")
c.add("g", "and", fanin=["a", "b"])   # some other logic, not an output
cg.lint(c)                            # lint-clean, blackbox-free, single output

print("list form:", [sorted(s.nodes()) for s in tx.supergates(c)])
print("expected: (super-circuit, map) such that filling the map's blackboxes gives a")
print("          circuit equivalent to c (inputs a,b ; output a)")
try:
    sc, m = tx.supergates(c, construct_supercircuit=True)
    for name, s in m.items():
        sc.fill_blackbox(name, s)
    cg.lint(sc)
except Exception as e:  # noqa
    print(f"happened: {type(e).__name__}: {e}")
    sys.exit(1)
ok = sc.inputs() == c.inputs() and sc.outputs() == c.outputs() and sc.type("a") == "input"
print("happened: returned", sorted(sc.nodes()), "outputs", sc.outputs())
sys.exit(0 if ok else 1)
