"""C03_1: circuit_to_verilog crashes on a blackbox instance with an escaped name.

Run as: PYTHONPATH=<tree>:/tmp/sat_standin python demo.py
Exit 1 when the defect is present, 0 when it is absent.
"""
import os
import sys
import tempfile

import circuitgraph as cg
from circuitgraph.io import circuit_to_verilog, verilog_to_circuit


def build():
    # ff \u1 (.D(a), .Q(q));   -- instance name is an escaped identifier
    c = cg.Circuit("top")
    c.add("a", "input")
    c.add("q", "buf", output=True)
    ff = cg.BlackBox("ff", ["D"], ["Q"])
    c.add_blackbox(ff, "\\u1", {"D": "a", "Q": "q"})
    cg.lint(c)  # the circuit is lint-clean
    return c, ff


def describe(c):
    return (
        c.name,
        sorted(c.nodes()),
        sorted(c.edges()),
        sorted((n, c.type(n), c.is_output(n)) for n in c.nodes()),
        sorted((k, v.name) for k, v in c.blackboxes.items()),
    )


def main():
    bad = False

    # The reader is fine with such an instance: hand-written text parses to the
    # very circuit built above, so the circuit is representable and in the domain.
    c, ff = build()
    text = (
        "module top (a, q);\n  input a;\n  output q;\n  wire q;\n"
        "  ff \\u1 (.D(a), .Q(q));\nendmodule\n"
    )
    ref = verilog_to_circuit(text, "top", blackboxes=[ff])
    print("hand-written netlist reads back as the built circuit:", describe(ref) == describe(c))

    for behavioral in (False, True):
        c, ff = build()
        print(f"--- circuit_to_verilog(behavioral={behavioral})")
        print("expected: Verilog text that reads back to an identical circuit")
        try:
            out = circuit_to_verilog(c, behavioral=behavioral)
            d = verilog_to_circuit(out, c.name, blackboxes=[ff])
            ok = describe(d) == describe(c)
            print("got     :", "identical circuit" if ok else f"different circuit {describe(d)}")
            bad |= not ok
        except Exception as e:  # noqa: BLE001
            print(f"got     : {type(e).__name__}: {e}")
            bad = True

    # the same through to_file / from_file
    c, ff = build()
    path = os.path.join(tempfile.mkdtemp(), "top.v")
    print("--- to_file / from_file")
    try:
        cg.to_file(c, path)
        d = cg.from_file(path, blackboxes=[ff])
        ok = describe(d) == describe(c)
        print("got     :", "identical circuit" if ok else "different circuit")
        bad |= not ok
    except Exception as e:  # noqa: BLE001
        print(f"got     : {type(e).__name__}: {e}")
        bad = True

    print("DEFECT PRESENT" if bad else "defect absent")
    return 1 if bad else 0


if __name__ == "__main__":
    sys.exit(main())
