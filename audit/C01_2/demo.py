"""C01_2: approx_model_count(c, use_xor_clauses=True) crashes unless assumptions are given.

`approxmc` is not installed here, so this demo puts a tiny exact stand-in for it
on PATH (ordinary clause: at least one literal true; xor clause `x l1 ... 0`:
an odd number of literals true; prints the exact projected count on the
`c ind` sampling set as `s mc N`).
"""
import itertools
import os
import stat
import sys
import tempfile

STUB = r'''#!%s
import itertools, sys
path = [a for a in sys.argv[1:] if not a.startswith("--")][-1]
ind, clauses, xors, nv = [], [], [], 0
for line in open(path):
    line = line.strip()
    if not line:
        continue
    if line.startswith("c ind"):
        ind += [int(t) for t in line.split()[2:-1]]
    elif line.startswith("c"):
        continue
    elif line.startswith("p cnf"):
        nv = int(line.split()[2])
    elif line.startswith("x"):
        xors.append([int(t) for t in line[1:].split()[:-1]])
    else:
        clauses.append([int(t) for t in line.split()[:-1]])
for cl in clauses + xors:
    for l in cl:
        nv = max(nv, abs(l))
seen = set()
for bits in itertools.product([False, True], repeat=nv):
    val = lambda l: bits[abs(l) - 1] == (l > 0)
    if all(any(val(l) for l in cl) for cl in clauses) and all(
        sum(val(l) for l in x) %% 2 == 1 for x in xors
    ):
        seen.add(tuple(bits[v - 1] for v in ind))
print("c -- xor clauses added: %%d" %% len(xors))
print("s SATISFIABLE" if seen else "s UNSATISFIABLE")
print("s mc %%d" %% len(seen))
''' % sys.executable


def install_stub():
    d = tempfile.mkdtemp(prefix="approxmc_stub_")
    p = os.path.join(d, "approxmc")
    with open(p, "w") as f:
        f.write(STUB)
    os.chmod(p, os.stat(p).st_mode | stat.S_IXUSR | stat.S_IXGRP | stat.S_IXOTH)
    os.environ["PATH"] = d + os.pathsep + os.environ.get("PATH", "")


def main():
    install_stub()
    import circuitgraph as cg

    c = cg.Circuit()
    c.add("a", "input")
    c.add("b", "input")
    c.add("c", "input")
    c.add("g", "xor", fanin=["a", "b", "c"], output=True)
    cg.lint(c)

    # an acyclic circuit with 3 free startpoints and no assumptions: every one
    # of the 2**3 startpoint assignments extends to exactly one model
    expected = 8
    print(f"model_count(c)                             = {cg.sat.model_count(c)}")
    print(f"approx_model_count(c)                      = {cg.sat.approx_model_count(c)}")
    bad = False
    for label, kwargs in (
        ("approx_model_count(c, use_xor_clauses=True)", {}),
        ("approx_model_count(c, None, use_xor_clauses=True)", {"assumptions": None}),
    ):
        try:
            got = cg.sat.approx_model_count(c, use_xor_clauses=True, **kwargs)
        except Exception as e:  # noqa: BLE001
            got = f"{type(e).__name__}: {e}"
        print(f"{label} -> {got!r} (expected {expected})")
        bad |= got != expected
    # the documented default (assumptions=None) must behave like no assumptions
    got = cg.sat.approx_model_count(c, assumptions={}, use_xor_clauses=True)
    print(f"approx_model_count(c, {{}}, use_xor_clauses=True) -> {got!r} (expected {expected})")
    bad |= got != expected
    if bad:
        print("DEFECT PRESENT: use_xor_clauses=True fails with the default assumptions=None")
        return 1
    print("ok")
    return 0


if __name__ == "__main__":
    sys.exit(main())
