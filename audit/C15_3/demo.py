"""C15_3: circuit_to_bench / bench_to_circuit lose nets whose name is not a simple identifier.

The library's own Verilog reader produces such names: an escaped identifier
`\\data[0] ` becomes the node '\\data[0]'.  The circuit is lint-clean and
blackbox-free, circuit_to_bench writes it without complaint, and reading the text
back silently returns a different circuit: inputs and outputs are missing and the
remaining output hangs on undriven buffers.
"""
import itertools
import sys

import circuitgraph as cg
from circuitgraph.io import bench_to_circuit, circuit_to_bench, verilog_to_circuit

bad = 0


def evaluate(c, node, asg):
    t = c.type(node)
    if node in asg:
        return asg[node]
    ins = [evaluate(c, f, asg) for f in sorted(c.fanin(node))]
    if t in ("buf", "not"):
        return ins[0] ^ (t == "not")  # IndexError if the net is undriven
    if t in ("and", "nand"):
        return int(all(ins)) ^ (t == "nand")
    if t in ("or", "nor"):
        return int(any(ins)) ^ (t == "nor")
    if t in ("xor", "xnor"):
        return (sum(ins) % 2) ^ (t == "xnor")
    raise ValueError(t)


def round_trip(title, c):
    global bad
    print(f"--- {title}")
    cg.lint(c)  # the circuit is in the property's domain
    text = circuit_to_bench(c)
    print(text)
    try:
        d = bench_to_circuit(text, c.name)
    except Exception as e:  # noqa: BLE001
        print(f"expected the same circuit back, got {type(e).__name__}: {e}")
        bad += 1
        return
    ok = True
    if d.inputs() != c.inputs():
        print(f"expected inputs {sorted(c.inputs())}, got {sorted(d.inputs())}")
        ok = False
    if d.outputs() != c.outputs():
        print(f"expected outputs {sorted(c.outputs())}, got {sorted(d.outputs())}")
        ok = False
    ins = sorted(c.inputs())
    for o in sorted(c.outputs() & d.nodes()):
        for bits in itertools.product([0, 1], repeat=len(ins)):
            asg = dict(zip(ins, bits))
            want = evaluate(c, o, asg)
            try:
                got = evaluate(d, o, asg)
            except IndexError:
                got = "undefined (undriven net in its cone)"
            if got != want:
                print(f"output {o} under {asg}: expected {want}, got {got}")
                ok = False
                break
    if ok:
        print("ok")
    else:
        bad += 1


# 1. a netlist with escaped identifiers (bus bits as most synthesis tools write them),
#    read by the library's own Verilog parser
verilog = r"""
module m(\data[0] , \data[1] , en, \q[0] , y);
  input \data[0] , \data[1] , en;
  output \q[0] , y;
  and g0(\q[0] , \data[0] , en);
  xor g1(y, \q[0] , \data[1] );
endmodule
"""
round_trip("circuit from verilog_to_circuit with escaped identifiers", verilog_to_circuit(verilog, "m"))

# 2. the same through the construction API; here '\a' is read back as a net called 'a'
#    and captures the unrelated input 'a'
c = cg.Circuit("t")
c.add("a", "input")
c.add("b", "input")
c.add("\\a", "not", fanin="b")
c.add("y", "and", fanin=["a", "\\a"], output=True)
round_trip("nets 'a' and '\\a' side by side", c)

# control: simple identifiers survive
c = cg.Circuit("t")
c.add("a", "input")
c.add("b", "input")
c.add("a_esc", "not", fanin="b")
c.add("y", "and", fanin=["a", "a_esc"], output=True)
round_trip("control (simple identifiers)", c)

if bad:
    print(f"\nDEFECT PRESENT: {bad} circuits not read back faithfully")
    sys.exit(1)
print("\ndefect absent")
sys.exit(0)
