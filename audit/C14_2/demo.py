"""C14_2: a net that is read but has no driver (a floating wire feeding a gate or
a blackbox pin) becomes a node WITHOUT a type in the fast parser; the full
parser makes it an undriven `buf`.  The graphs differ and the circuit returned
by the fast parser is malformed (Circuit.inputs() and Circuit.type() raise
KeyError: 'type', the circuit can not be written back).

Exit status 1 when the defect is present, 0 when it is absent.
"""
import sys

import circuitgraph as cg

BBS = [cg.BlackBox("dff", ["D", "CK"], ["Q"])]


def api(c, what):
    """c.inputs() / c.outputs() through the public API (may raise)."""
    try:
        return sorted(getattr(c, what)())
    except Exception as e:  # pylint: disable=broad-except
        return f"raises {type(e).__name__}({e})"


def view(c):
    g = c.graph
    return {
        "inputs": api(c, "inputs"),
        "outputs": api(c, "outputs"),
        "nodes": {n: (g.nodes[n].get("type"), c.is_output(n)) for n in sorted(g.nodes)},
        "edges": sorted(g.edges),
        "blackboxes": {k: v.name for k, v in c.blackboxes.items()},
    }


CASES = {}

CASES["floating wire feeds a gate"] = """module top (a, y);
  input a;
  output y;
  wire w;
  and g0 (y, a, w);
endmodule
"""

CASES["floating wire feeds a blackbox pin and an assign"] = """module top (ck, y, z);
  input ck;
  output y;
  output z;
  wire w;
  dff f0 (.D(w), .CK(ck), .Q(y));
  assign z = w;
endmodule
"""

# text produced by the library's own writer: an undriven buf is legal in a Circuit
# (the full parser creates them) and circuit_to_verilog emits it as a bare wire
c0 = cg.Circuit(name="top")
c0.add("a", "input")
c0.add("w", "buf")
c0.add("y", "and", fanin=["a", "w"], output=True)
CASES["circuit_to_verilog output of a circuit with an undriven buf"] = (
    cg.io.circuit_to_verilog(c0)
)

bad = 0
for label, text in CASES.items():
    print(f"--- {label}")
    full_c = cg.io.verilog_to_circuit(text, "top", blackboxes=BBS)
    fast_c = cg.io.verilog_to_circuit(text, "top", blackboxes=BBS, fast=True)
    full, fast = view(full_c), view(fast_c)
    print("expected (full parser):", full)
    print("fast parser           :", fast)
    problems = []
    if full != fast:
        problems.append("graphs differ")
    try:
        t = fast_c.type("w")
        if t != full_c.type("w"):
            problems.append(f"type('w') is {t!r}, expected {full_c.type('w')!r}")
    except KeyError as e:
        problems.append(f"fast circuit: type('w') raises KeyError({e})")
    try:
        cg.io.circuit_to_verilog(fast_c)
    except Exception as e:  # pylint: disable=broad-except
        problems.append(f"fast circuit can not be written: {type(e).__name__}({e})")
    if problems:
        bad += 1
        print("=> MISMATCH:", "; ".join(problems))
    else:
        print("=> ok")

if bad:
    print(f"\nDEFECT PRESENT: {bad} of {len(CASES)} netlists parsed differently")
    sys.exit(1)
print("\ndefect absent")
sys.exit(0)
