"""C15_2: the bench reader does not skip '#' comments.

Every bench file shipped with the library starts with a '#' comment and
circuit_to_bench itself writes one ('# <name>'), but bench_to_circuit runs its
regular expressions over the raw text, so INPUT/OUTPUT/gate/DFF statements that
are commented out are read as if they were live.
"""
import itertools
import sys

from circuitgraph.io import bench_to_circuit

bad = 0


def evaluate(c, node, asg):
    t = c.type(node)
    if t == "input":
        return asg[node]
    ins = [evaluate(c, f, asg) for f in sorted(c.fanin(node))]
    if t == "buf":
        return ins[0]
    if t == "not":
        return 1 - ins[0]
    if t in ("and", "nand"):
        return int(all(ins)) ^ (t == "nand")
    if t in ("or", "nor"):
        return int(any(ins)) ^ (t == "nor")
    if t in ("xor", "xnor"):
        return (sum(ins) % 2) ^ (t == "xnor")
    raise ValueError(t)


def check(title, text, inputs, outputs, funcs):
    global bad
    print(f"--- {title}")
    print(text)
    try:
        c = bench_to_circuit(text, "t")
    except Exception as e:  # noqa: BLE001
        print(f"expected inputs {sorted(inputs)} outputs {sorted(outputs)}")
        print(f"got {type(e).__name__}: {e}")
        bad += 1
        return
    ok = True
    if c.inputs() != set(inputs):
        print(f"expected inputs {sorted(inputs)}, got {sorted(c.inputs())}")
        ok = False
    if c.outputs() != set(outputs):
        print(f"expected outputs {sorted(outputs)}, got {sorted(c.outputs())}")
        ok = False
    extra = c.nodes() - set(inputs) - set(funcs)
    if extra:
        print(f"nets that the text does not define: {sorted(extra)}")
        ok = False
    ins = sorted(c.inputs())
    for o, fn in funcs.items():
        if o not in c:
            continue
        for bits in itertools.product([0, 1], repeat=len(ins)):
            asg = dict(zip(ins, bits))
            try:
                got = evaluate(c, o, asg)
            except Exception as e:  # noqa: BLE001
                got = f"{type(e).__name__}"
            if got != fn(asg):
                print(
                    f"net {o} ({c.type(o)} of {sorted(c.fanin(o))}) under {asg}: "
                    f"expected {fn(asg)}, got {got}"
                )
                ok = False
                break
    if ok:
        print("ok")
    else:
        bad += 1


# 1. an old definition kept as a comment above the new one: the fan-ins of both are
#    merged, y = AND(a, b) is read as AND(a, b, c)
check(
    "commented-out gate above its replacement: silently wrong function",
    "INPUT(a)\nINPUT(b)\nINPUT(c)\nOUTPUT(y)\n# y = AND(a, c)\ny = AND(a, b)\n",
    {"a", "b", "c"},
    {"y"},
    {"y": lambda v: v["a"] & v["b"]},
)

# 2. the replacement comes first, the comment after it: the comment wins
check(
    "commented-out gate below its replacement: comment overrides the gate",
    "INPUT(a)\nINPUT(b)\nOUTPUT(y)\ny = AND(a, b)\n#y = OR(a, b)\n",
    {"a", "b"},
    {"y"},
    {"y": lambda v: v["a"] & v["b"]},
)

# 3. commented-out declarations become inputs / outputs
check(
    "commented-out INPUT and OUTPUT lines",
    "# INPUT(old)\nINPUT(a)\nOUTPUT(y)\n# OUTPUT(n)\nn = NOT(a)\ny = BUFF(n)\n",
    {"a"},
    {"y"},
    {"n": lambda v: 1 - v["a"], "y": lambda v: 1 - v["a"]},
)

# 4. a commented-out flip-flop still becomes a blackbox
text = "INPUT(a)\nOUTPUT(y)\n#y = DFF(a)\ny = NOT(a)\n"
print("--- commented-out DFF")
print(text)
try:
    c = bench_to_circuit(text, "t")
    if c.blackboxes or c.type("y") != "not":
        print(
            f"expected no blackbox and y = NOT(a); got blackboxes {sorted(c.blackboxes)}, "
            f"y is {c.type('y')} of {sorted(c.fanin('y'))}"
        )
        bad += 1
    else:
        print("ok")
except Exception as e:  # noqa: BLE001
    print(f"expected no blackbox and y = NOT(a); got {type(e).__name__}: {e}")
    bad += 1

# control: harmless comments
check(
    "control (comments without statements)",
    "# c: 2 inputs, 1 output\nINPUT(a)\nINPUT(b)\nOUTPUT(y)\ny = AND(a, b) # the gate\n",
    {"a", "b"},
    {"y"},
    {"y": lambda v: v["a"] & v["b"]},
)

if bad:
    print(f"\nDEFECT PRESENT: {bad} bench texts mis-read")
    sys.exit(1)
print("\ndefect absent")
sys.exit(0)
