"""C15_1: a blank between the gate keyword and '(' makes the bench reader drop the line.

`INPUT (a)` / `OUTPUT (y)` are accepted with a blank before the parenthesis, but
`y = AND (a, b)` and `q = DFF (a)` are silently skipped.
"""
import sys

from circuitgraph.io import bench_to_circuit

bad = 0


def check(title, text, expect_nodes, expect_out, flops=()):
    """expect_nodes: {net: (type, fanin set)} is what the text denotes."""
    global bad
    print(f"--- {title}")
    print(text)
    try:
        c = bench_to_circuit(text, "t")
    except Exception as e:  # noqa: BLE001
        print(f"expected: a circuit with outputs {sorted(expect_out)}")
        print(f"got     : {type(e).__name__}: {e}")
        bad += 1
        return
    ok = True
    if c.outputs() != set(expect_out):
        print(f"expected outputs {sorted(expect_out)}, got {sorted(c.outputs())}")
        ok = False
    for n, (t, fi) in expect_nodes.items():
        got = (c.type(n), c.fanin(n)) if n in c else None
        if got != (t, set(fi)):
            print(f"net {n}: expected {(t, sorted(fi))}, got {got}")
            ok = False
    for f in flops:
        if f not in c.blackboxes:
            print(f"expected flip-flop blackbox {f}, got blackboxes {sorted(c.blackboxes)}")
            ok = False
    if ok:
        print("ok")
    else:
        bad += 1


# 1. the gate line defines an output: reader crashes with an undocumented KeyError
check(
    "blank between AND and '(' (net is an output)",
    "INPUT (a)\nINPUT (b)\nOUTPUT (y)\ny = AND (a, b)\n",
    {"y": ("and", {"a", "b"})},
    {"y"},
)

# 2. the gate line defines an inner net: no error at all, the net silently becomes an
#    undriven buffer, so y no longer computes NOT(AND(a, b)) but the complement of a floating net
check(
    "blank between AND and '(' (inner net): silently wrong",
    "INPUT(a)\nINPUT(b)\nOUTPUT(y)\nn = AND (a, b)\ny = NOT(n)\n",
    {"n": ("and", {"a", "b"}), "y": ("not", {"n"})},
    {"y"},
)

# 3. the same for a DFF line
check(
    "blank between DFF and '('",
    "INPUT(a)\nOUTPUT(y)\nq = DFF (a)\ny = NOT(q)\n",
    {"q": ("buf", {"q_dff.Q"}), "q_dff.D": ("bb_input", {"a"}), "y": ("not", {"q"})},
    {"y"},
    flops=["q_dff"],
)

# control: without the blank everything is read
check(
    "control (no blank)",
    "INPUT (a)\nINPUT (b)\nOUTPUT (y)\nn = AND(a, b)\ny = NOT(n)\n",
    {"n": ("and", {"a", "b"}), "y": ("not", {"n"})},
    {"y"},
)

if bad:
    print(f"\nDEFECT PRESENT: {bad} bench texts mis-read")
    sys.exit(1)
print("\ndefect absent")
sys.exit(0)
