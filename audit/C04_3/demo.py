"""C04_3: miter() refuses circuits whose startpoint names equal names it generates.

miter() copies the circuits under the prefixes c0_/c1_, adds one input named
like every tied startpoint and one gate dif_<endpoint> per compared endpoint,
all in one flat name space and without any clash handling.  A lint-clean
circuit with a startpoint called c0_<node>, c1_<node> or dif_<endpoint> is
therefore rejected with "ValueError: Node '...' already in circuit", although
these names are internal to miter() and the circuits are perfectly legal.
"""
import itertools
import sys

import circuitgraph as cg
from circuitgraph.sat import solve


def build(i0, i1, gate):
    c = cg.Circuit(name="c")
    c.add(i0, "input")
    c.add(i1, "input")
    c.add("y", gate, fanin=[i0, i1], output=True)
    cg.lint(c)
    return c


def differ(c0, c1, ins):
    """Brute force: do the two 2-input circuits differ on output y?"""
    from circuitgraph.sat import solve as s

    for bits in itertools.product([False, True], repeat=len(ins)):
        v = dict(zip(ins, bits))
        if s(c0, v)["y"] != s(c1, v)["y"]:
            return True
    return False


bad = False
for i0, i1 in [("a", "c0_a"), ("a", "c1_a"), ("a", "c0_y"), ("b", "dif_y")]:
    for g0, g1 in [("and", "and"), ("and", "or")]:
        c0, c1 = build(i0, i1, g0), build(i0, i1, g1)
        exp = differ(c0, c1, [i0, i1])
        label = f"inputs ({i0!r}, {i1!r}), y={g0} vs y={g1}"
        try:
            m = cg.tx.miter(c0, c1)
            got = bool(solve(m, {"sat": True}))
            ok = got == exp and m.inputs() == {i0, i1} and m.outputs() == {"sat"}
            print(f"{label}: expected differ={exp}, got differ={got}, inputs={sorted(m.inputs())}")
            bad |= not ok
        except Exception as e:  # noqa: BLE001
            print(f"{label}: expected a miter with differ={exp}, got {type(e).__name__}: {e}")
            bad = True

# self-miter of the same kind of circuit
try:
    m = cg.tx.miter(build("a", "c0_a", "and"))
    print("self-miter: solve ->", solve(m, {"sat": True}), "(expected False)")
    bad |= solve(m, {"sat": True}) is not False
except Exception as e:  # noqa: BLE001
    print(f"self-miter: expected an unsatisfiable miter, got {type(e).__name__}: {e}")
    bad = True

if bad:
    print("DEFECT PRESENT: legal circuits rejected because of miter-internal names")
    sys.exit(1)
print("defect absent")
sys.exit(0)
