"""C20_1: lint rejects well-formed circuits whose blackbox INSTANCE name contains a dot.

The dotted-name rule looks only at the text before the FIRST dot of a node name
(`g.split(".")[0]`), so the pins `u1.u2.i` / `u1.u2.z` of the registered instance
`u1.u2` are reported as "blackbox syntax with no instance".
"""
import sys

import circuitgraph as cg
from circuitgraph import BlackBox, Circuit

bad = 0


def lint_result(c, **kw):
    try:
        cg.lint(c, **kw)
        return None
    except ValueError as e:
        return str(e)


def build(inst):
    c = Circuit("top")
    c.add("a", "input")
    c.add("o", "buf", output=True)
    c.add_blackbox(BlackBox("cell", ["i"], ["z"]), inst, {"i": "a", "z": "o"})
    return c


# (a) circuit built through the public API only
ref = lint_result(build("u1_u2"))
print("instance 'u1_u2' : lint ->", ref or "clean")
try:
    c = build("u1.u2")
except ValueError as e:  # a maintainer might decide to refuse such names up front
    print("instance 'u1.u2' : add_blackbox refused the name:", e)
    c = None
if c is not None:
    assert set(c.blackboxes) == {"u1.u2"}
    assert c.type("u1.u2.i") == "bb_input" and c.type("u1.u2.z") == "bb_output"
    for kw in ({}, {"fail_fast": False}):
        got = lint_result(c, **kw)
        print(f"instance 'u1.u2' {kw}: expected clean (every dotted node is a pin of the")
        print("   registered instance 'u1.u2'); lint ->", got or "clean")
        if got is not None:
            bad += 1

# (b) the same situation produced by the library's own Verilog parser:
#     an escaped instance name (legal Verilog, common after hierarchy flattening)
netlist = """
module m(ck, a, o);
  input ck, a;
  output o;
  ff \\u1.f0 (.clk(ck), .d(a), .q(o));
endmodule
"""
p = cg.io.verilog_to_circuit(netlist, "m", blackboxes=[cg.generic_flop])
print("parsed instances:", sorted(p.blackboxes), "nodes:", sorted(p.nodes()))
got = lint_result(p)
print("parser output: expected clean; lint ->", got or "clean")
if got is not None:
    bad += 1

if bad:
    print(f"DEFECT PRESENT ({bad} well-formed circuits rejected by lint)")
    sys.exit(1)
print("defect absent")
sys.exit(0)
