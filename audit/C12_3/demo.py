"""C12_3: props.levelize crashes on any circuit that contains a gate without
fan-in (an undriven wire), although such a node is simply a source of level 0.

Exits 1 when the defect is present, 0 when it is absent.
"""
import sys

import networkx as nx

import circuitgraph as cg
from circuitgraph.props import levelize


def reference_levels(c):
    lv = {}
    for n in nx.topological_sort(c.graph):
        lv[n] = max((lv[p] + 1 for p in c.graph.predecessors(n)), default=0)
    return lv


def case_api():
    c = cg.Circuit()
    c.add("a", "input")
    c.add("w", "buf")  # declared, never driven
    c.add("g", "and", fanin=["a", "w"])
    c.add("o", "not", fanin="g", output=True)
    return c


def case_verilog():
    v = """
    module m(a, o);
      input a; output o;
      wire w;
      and g(o, a, w);
    endmodule
    """
    return cg.io.verilog_to_circuit(v, "m")


def main():
    bad = False
    for label, build in (("API circuit", case_api), ("Verilog netlist", case_verilog)):
        c = build()
        cg.lint(c, undriven=False)  # the circuit is well formed apart from the floating wire
        expected = reference_levels(c)
        # the other depth query copes with the same circuit
        deepest = max(expected, key=expected.get)
        print(f"{label}: fanin_depth('{deepest}') = {c.fanin_depth(deepest)}")
        try:
            got = levelize(c)
        except Exception as e:  # noqa: BLE001
            print(f"{label}: expected {expected}")
            print(f"{label}: levelize raised {type(e).__name__}: {e}")
            bad = True
            continue
        print(f"{label}: expected {expected}, got {got}")
        if got != expected:
            bad = True
    if bad:
        print("DEFECT: levelize fails on a circuit with an undriven gate")
        return 1
    print("OK: levelize gives the longest path length to a source")
    return 0


if __name__ == "__main__":
    sys.exit(main())
