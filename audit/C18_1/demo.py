"""C18_1: acyclic_unroll refuses a legal cyclic circuit that owns a net called
aux_in_<feedback node> (the name the transform gives to its cut buffers)."""
import itertools
import sys

import circuitgraph as cg
from circuitgraph import tx


def build(probe_names):
    # i --> a(and) <--> b(or): one two-gate loop; two observation buffers
    c = cg.Circuit(name="loop")
    c.add("i", "input")
    c.add("a", "and")
    c.add("b", "or")
    c.connect("i", ["a", "b"])
    c.connect("a", "b")
    c.connect("b", "a")
    # whichever of a / b the heuristic cuts, its aux_in_ name is taken
    c.add(probe_names[0], "buf", fanin="a", output=True)
    c.add(probe_names[1], "buf", fanin="b", output=True)
    cg.lint(c)
    assert c.is_cyclic() and not c.blackboxes
    return c


GATES = {
    "buf": lambda v: v[0],
    "and": lambda v: int(all(v)),
    "or": lambda v: int(any(v)),
}


def check(c, acyc):
    """Statement of C18 on a small circuit, by brute force.

    The auxiliary inputs are matched to nodes of c without relying on their
    names: some assignment aux input -> node of c must reproduce every stable
    output value for every input valuation.
    """
    assert not acyc.is_cyclic()
    cg.lint(acyc)
    assert acyc.outputs() == c.outputs()
    (inp,) = c.inputs()
    aux = sorted(acyc.inputs() - c.inputs())
    assert c.inputs() <= acyc.inputs() and len(aux) >= 1
    free = sorted(n for n in c.nodes() if c.type(n) != "input")
    stable = []
    for iv in (0, 1):
        for bits in itertools.product((0, 1), repeat=len(free)):
            st = dict(zip(free, bits))
            st[inp] = iv
            if all(
                GATES[c.type(n)]([st[f] for f in c.fanin(n)]) == st[n] for n in free
            ):
                stable.append(st)
    assert stable

    def works(assign):
        for st in stable:
            val = {inp: st[inp]}
            val.update({x: st[f] for x, f in zip(aux, assign)})
            for n in acyc.topo_sort():
                if n not in val:
                    val[n] = GATES[acyc.type(n)]([val[f] for f in acyc.fanin(n)])
            if any(val[o] != st[o] for o in c.outputs()):
                return False
        return True

    assert any(works(a) for a in itertools.product(free, repeat=len(aux))), (
        "no assignment of the auxiliary inputs reproduces the stable outputs"
    )


def main():
    bad = 0
    # control: same structure, harmless names -> works
    ctrl = build(["obs_a", "obs_b"])
    check(ctrl, tx.acyclic_unroll(ctrl))
    print("control circuit (probes obs_a/obs_b): unrolled and verified")

    c = build(["aux_in_a", "aux_in_b"])
    print("expected: acyclic circuit with outputs", sorted(c.outputs()))
    try:
        acyc = tx.acyclic_unroll(c)
        check(c, acyc)
        print("got     : unrolled and verified, inputs", sorted(acyc.inputs()))
    except Exception as e:  # noqa: BLE001
        print(f"got     : {type(e).__name__}: {e}")
        bad = 1
    return bad


if __name__ == "__main__":
    sys.exit(main())
