"""C18_2: acyclic_unroll refuses legal cyclic circuits whose input or output
names look like the names of its internal copies (c0_<node>, c1_<node>, ...)."""
import itertools
import sys

import circuitgraph as cg
from circuitgraph import tx

GATES = {
    "buf": lambda v: v[0],
    "and": lambda v: int(all(v)),
    "or": lambda v: int(any(v)),
}


def build(inp, out):
    # inp --> a(and) <--> b(or) --> out(buf, output)
    c = cg.Circuit(name="loop")
    c.add(inp, "input")
    c.add("a", "and")
    c.add("b", "or")
    c.connect(inp, ["a", "b"])
    c.connect("a", "b")
    c.connect("b", "a")
    c.add(out, "buf", fanin="b", output=True)
    cg.lint(c)
    assert c.is_cyclic() and not c.blackboxes
    return c


def check(c, acyc):
    """Statement of C18 on a small circuit, by brute force.

    The auxiliary inputs are matched to nodes of c without relying on their
    names: some assignment aux input -> node of c must reproduce every stable
    output value for every input valuation.
    """
    assert not acyc.is_cyclic()
    cg.lint(acyc)
    assert acyc.outputs() == c.outputs()
    (inp,) = c.inputs()
    aux = sorted(acyc.inputs() - c.inputs())
    assert c.inputs() <= acyc.inputs() and len(aux) >= 1
    free = sorted(n for n in c.nodes() if c.type(n) != "input")
    stable = []
    for iv in (0, 1):
        for bits in itertools.product((0, 1), repeat=len(free)):
            st = dict(zip(free, bits))
            st[inp] = iv
            if all(
                GATES[c.type(n)]([st[f] for f in c.fanin(n)]) == st[n] for n in free
            ):
                stable.append(st)
    assert stable

    def works(assign):
        for st in stable:
            val = {inp: st[inp]}
            val.update({x: st[f] for x, f in zip(aux, assign)})
            for n in acyc.topo_sort():
                if n not in val:
                    val[n] = GATES[acyc.type(n)]([val[f] for f in acyc.fanin(n)])
            if any(val[o] != st[o] for o in c.outputs()):
                return False
        return True

    assert any(works(a) for a in itertools.product(free, repeat=len(aux))), (
        "no assignment of the auxiliary inputs reproduces the stable outputs"
    )


def main():
    bad = 0
    cases = [
        ("control", "i", "o"),
        ("input named c0_a", "c0_a", "o"),
        ("input named c1_b", "c1_b", "o"),
        ("output named c0_a", "i", "c0_a"),
        ("output named c1_b", "i", "c1_b"),
        ("output named c1_i", "i", "c1_i"),
    ]
    for label, inp, out in cases:
        c = build(inp, out)
        try:
            acyc = tx.acyclic_unroll(c)
            check(c, acyc)
            print(f"{label:20s}: expected unrolled circuit; got one, verified")
        except Exception as e:  # noqa: BLE001
            print(f"{label:20s}: expected unrolled circuit; got {type(e).__name__}: {e}")
            bad = 1
    return bad


if __name__ == "__main__":
    sys.exit(main())
