"""strip_blackboxes(ignore_pins=...) identifies a pin by the text after the LAST
dot of the node name, not by the pin name of the instance.

A pin whose own name contains a dot ('a.clk' on instance 'u' -> node 'u.a.clk',
accepted by add_blackbox and by cg.lint) is therefore
  * deleted when a DIFFERENT pin name ('clk') is ignored, and
  * not deleted when it is the pin that is ignored ('a.clk').
"""
import sys

import circuitgraph as cg


def build():
    c = cg.Circuit("top")
    for i in ["x", "y", "z"]:
        c.add(i, "input")
    c.add("o", "buf", output=True)
    bb = cg.BlackBox("cell", ["a.clk", "clk", "d"], ["q"])
    c.add_blackbox(bb, "u", {"a.clk": "x", "clk": "y", "d": "z", "q": "o"})
    cg.lint(c)
    return c, bb


def expected_nodes(c, bb, inst, ignored):
    """dict model: every pin of the instance that is not ignored is exposed."""
    keep = set(c.nodes()) - {f"{inst}.{p}" for p in bb.io()}
    for p in bb.io():
        if p not in ignored:
            keep.add(f"{inst}.{p}".replace(".", "_"))
    return keep


ok = True
for ignored in (["clk"], ["a.clk"], "a.clk", {"clk", "d"}):
    c, bb = build()
    ign = {ignored} if isinstance(ignored, str) else set(ignored)
    exp = expected_nodes(c, bb, "u", ign)
    got = cg.tx.strip_blackboxes(c, ignore_pins=ignored)
    got_nodes = set(got.nodes())
    print(f"ignore_pins={ignored!r}")
    print(f"  expected nodes: {sorted(exp)}")
    print(f"  got      nodes: {sorted(got_nodes)}")
    if got_nodes != exp:
        ok = False
        if exp - got_nodes:
            print(f"  pins deleted although not ignored: {sorted(exp - got_nodes)}")
        if got_nodes - exp:
            print(f"  ignored pins still exposed:        {sorted(got_nodes - exp)}")
    else:
        # exposed input pin must be an output buffer of its driver
        if "u_a_clk" in got_nodes:
            good = (
                got.type("u_a_clk") == "buf"
                and got.is_output("u_a_clk")
                and got.fanin("u_a_clk") == {"x"}
            )
            ok = ok and good

if ok:
    print("OK: ignore_pins selects exactly the named pins")
    sys.exit(0)
print("DEFECT: ignore_pins is matched against the text after the last dot")
sys.exit(1)
