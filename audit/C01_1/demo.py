"""C01_1: approx_model_count(use_xor_clauses=True) encodes xor as xnor and xnor as xor.

`approxmc` is not installed here, so this demo puts a tiny exact stand-in for it
on PATH.  The stand-in reads the extended DIMACS format of approxmc /
CryptoMiniSat: an ordinary clause holds when at least one literal is true, an
xor clause `x l1 l2 ... 0` holds when an ODD number of its literals is true
(`x1 2 3 0` means v1 ^ v2 ^ v3 = 1), and it prints the exact number of
assignments to the `c ind` sampling set that extend to a model.
"""
import itertools
import os
import stat
import sys
import tempfile

STUB = r'''#!%s
import itertools, sys
path = [a for a in sys.argv[1:] if not a.startswith("--")][-1]
ind, clauses, xors, nv = [], [], [], 0
for line in open(path):
    line = line.strip()
    if not line:
        continue
    if line.startswith("c ind"):
        ind += [int(t) for t in line.split()[2:-1]]
    elif line.startswith("c"):
        continue
    elif line.startswith("p cnf"):
        nv = int(line.split()[2])
    elif line.startswith("x"):
        xors.append([int(t) for t in line[1:].split()[:-1]])
    else:
        clauses.append([int(t) for t in line.split()[:-1]])
for cl in clauses + xors:
    for l in cl:
        nv = max(nv, abs(l))
seen = set()
for bits in itertools.product([False, True], repeat=nv):
    val = lambda l: bits[abs(l) - 1] == (l > 0)
    if all(any(val(l) for l in cl) for cl in clauses) and all(
        sum(val(l) for l in x) %% 2 == 1 for x in xors
    ):
        seen.add(tuple(bits[v - 1] for v in ind))
print("c -- xor clauses added: %%d" %% len(xors))
print("s SATISFIABLE" if seen else "s UNSATISFIABLE")
print("s mc %%d" %% len(seen))
''' % sys.executable


def install_stub():
    d = tempfile.mkdtemp(prefix="approxmc_stub_")
    p = os.path.join(d, "approxmc")
    with open(p, "w") as f:
        f.write(STUB)
    os.chmod(p, os.stat(p).st_mode | stat.S_IXUSR | stat.S_IXGRP | stat.S_IXOTH)
    os.environ["PATH"] = d + os.pathsep + os.environ.get("PATH", "")


def main():
    install_stub()
    import circuitgraph as cg

    bad = 0
    for gate in ("xor", "xnor"):
        for arity in (1, 2, 3):
            c = cg.Circuit()
            ins = [c.add(f"i{k}", "input") for k in range(arity)]
            c.add("g", gate, fanin=ins, output=True)
            cg.lint(c)
            for bits in itertools.product([False, True], repeat=arity):
                parity = sum(bits) % 2 == 1
                g_true = parity if gate == "xor" else not parity
                for g_val in (False, True):
                    asm = dict(zip(ins, bits))
                    asm["g"] = g_val
                    # every startpoint is fixed: the count is 1 when the
                    # valuation is consistent with the gate and 0 otherwise
                    expected = 1 if g_val == g_true else 0
                    plain = cg.sat.approx_model_count(c, assumptions=asm)
                    xorcl = cg.sat.approx_model_count(
                        c, assumptions=asm, use_xor_clauses=True
                    )
                    solve = 1 if cg.sat.solve(c, asm) else 0
                    if not (plain == xorcl == solve == expected):
                        bad += 1
                        if bad <= 6:
                            print(
                                f"{gate}/{arity} inputs={bits} g={g_val}: expected "
                                f"{expected}; solve says {solve}, approx_model_count "
                                f"says {plain}, with use_xor_clauses=True it says {xorcl}"
                            )
    if bad:
        print(f"DEFECT PRESENT: {bad} (gate, valuation) pairs counted wrongly")
        return 1
    print("ok: use_xor_clauses=True agrees with the Tseitin encoding and the truth table")
    return 0


if __name__ == "__main__":
    sys.exit(main())
