"""add() with the empty string as node name crashes with IndexError instead of
rejecting the illegal name with ValueError."""
import sys

import circuitgraph as cg

bad = False
for kwargs in ({}, {"uid": True}, {"fanin": ["a"], "output": True}):
    c = cg.Circuit()
    c.add("a", "input")
    print(f"--- c.add('', 'buf', **{kwargs})")
    print("expected: ValueError (illegal name), circuit unchanged")
    try:
        r = c.add("", "buf", **kwargs)
        print(f"happened: returned {r!r}; nodes {sorted(c.nodes())}")
        # accepting the name would be a (strange) design decision, not a crash
        ok = True
    except ValueError as e:
        print(f"happened: ValueError: {e}")
        ok = c.nodes() == {"a"} and not c.edges()
    except Exception as e:  # noqa: BLE001
        print(f"happened: {type(e).__name__}: {e}")
        ok = False
    print("  ->", "ok" if ok else "DEFECT")
    bad |= not ok

sys.exit(1 if bad else 0)
