"""C04_2: miter() ignores an explicitly empty choice of tied startpoints.

The statement covers "any choice of tied startpoints ... every subset of shared
startpoints".  The empty subset (tie nothing: all startpoints of both copies are
independent) is passed as `startpoints=set()`, the documented argument type.
miter() tests `if not startpoints`, so the empty set is treated like None and
ALL shared startpoints are tied instead.
"""
import sys

import circuitgraph as cg
from circuitgraph.sat import solve

c0 = cg.Circuit(name="c0")
c0.add("a", "input")
c0.add("b", "input")
c0.add("y", "xor", fanin=["a", "b"], output=True)
c1 = c0.copy()
cg.lint(c0)

bad = False
for label, args in [("self-miter", (c0,)), ("two copies", (c0, c1))]:
    for empty in (set(), frozenset(), []):
        m = cg.tx.miter(*args, startpoints=empty)
        res = solve(m, {"sat": True})
        print(f"{label}, startpoints={empty!r}")
        print("   expected: inputs == set(); sat satisfiable (c0_a/c0_b independent of c1_a/c1_b)")
        print(f"   got     : inputs == {sorted(m.inputs())}; solve -> {bool(res)}")
        if m.inputs() != set() or not res:
            bad = True

# a non-empty proper subset is honoured, which shows the intended semantics
m = cg.tx.miter(c0, startpoints={"a"})
print("startpoints={'a'}: inputs ==", sorted(m.inputs()), "; solve ->", bool(solve(m, {"sat": True})))

if bad:
    print("DEFECT PRESENT: empty startpoint choice silently replaced by 'tie everything'")
    sys.exit(1)
print("defect absent")
sys.exit(0)
