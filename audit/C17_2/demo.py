"""The blackbox instance names chosen by supergates(construct_supercircuit=True)
(`sg_<head>`) make fill_blackbox's flattened names (`sg_<head>_<node>`) collide for
ordinary identifiers, so the super-circuit cannot be filled back in."""
import itertools
import sys
import circuitgraph as cg
from circuitgraph import tx

c = cg.Circuit("names")
for i in ["b_c", "r", "c", "d"]:
    c.add(i, "input")
c.add("a", "and", fanin=["b_c", "r"])     # supergate sg_a   has input  b_c -> sg_a_b_c
c.add("a_b", "or", fanin=["c", "d"])      # supergate sg_a_b has input  c   -> sg_a_b_c
c.add("o", "xor", fanin=["a", "a_b"], output=True)
cg.lint(c)

sc, m = tx.supergates(c, construct_supercircuit=True)
print("blackboxes:", sorted(m))
print("expected: every blackbox of the super-circuit can be replaced by its supergate and")
print("          the result is equivalent to c")
try:
    for name, s in m.items():
        sc.fill_blackbox(name, s)
    cg.lint(sc)
except Exception as e:  # noqa
    print(f"happened: {type(e).__name__}: {e}")
    sys.exit(1)


def ev(ck, a):
    v = dict(a)
    for n in list(ck.topo_sort()):
        t = ck.type(n)
        f = [v[x] for x in ck.fanin(n)]
        if t == "input":
            continue
        v[n] = {"buf": lambda: f[0], "and": lambda: int(all(f)), "or": lambda: int(any(f)),
                "xor": lambda: sum(f) % 2}[t]()
    return v


ins = sorted(c.inputs())
bad = 0
for bits in itertools.product([0, 1], repeat=len(ins)):
    a = dict(zip(ins, bits))
    if ev(c, a)["o"] != ev(sc, a)["o"]:
        bad += 1
print("happened: filled; mismatching patterns:", bad)
sys.exit(1 if bad else 0)
