"""C12_2: kcuts returns every cut with a multiplicity that grows doubly
exponentially with circuit depth and exhausts memory on an 11-node circuit.

Exits 1 when the defect is present, 0 when it is absent.
"""
import subprocess
import sys
import time

import networkx as nx

import circuitgraph as cg

K = 3
CHILD = r"""
import resource, sys
resource.setrlimit(resource.RLIMIT_AS, (2 << 30, 2 << 30))   # 2 GiB cap
import circuitgraph as cg
c = cg.Circuit()
c.add('v0', 'input'); c.add('v1', 'input')
for i in range(2, 12):
    c.add(f'v{i}', 'and', fanin=[f'v{i-1}', f'v{i-2}'])
try:
    print('returned', len(c.kcuts('v11', 3)), 'sets')
except MemoryError:
    print('MemoryError under a 2 GiB address-space limit'); sys.exit(3)
"""


def ladder(k):
    """v0, v1 inputs, v[i] = and(v[i-1], v[i-2]); k nodes in total."""
    c = cg.Circuit()
    c.add("v0", "input")
    c.add("v1", "input")
    for i in range(2, k):
        c.add(f"v{i}", "and", fanin=[f"v{i-1}", f"v{i-2}"])
    return c


def is_cut(c, n, cut):
    """True if removing `cut` leaves no path from any source to n."""
    if n in cut:
        return cut == {n}
    g = c.graph.copy()
    g.remove_nodes_from(cut)
    return not any(
        g.in_degree(s) == 0 and c.graph.in_degree(s) == 0 and nx.has_path(g, s, n)
        for s in g
    )


def main():
    bad = False
    for k in (6, 7, 8, 9, 10):
        c = ladder(k)
        n = f"v{k-1}"
        t = time.time()
        cuts = c.kcuts(n, K)
        dt = time.time() - t
        distinct = {frozenset(x) for x in cuts}
        sound = all(len(x) <= K and is_cut(c, n, set(x)) for x in distinct if x != {n})
        print(
            f"{k:2d}-node ladder, kcuts('{n}', {K}): {len(cuts):8d} sets returned, "
            f"{len(distinct):3d} distinct (all valid cuts: {sound}), {dt:.2f} s"
        )
        if len(cuts) > 10 * len(distinct) or not sound:
            bad = True

    print("expected for the 12-node ladder: 55 distinct cuts, returned at once")
    r = subprocess.run(
        [sys.executable, "-c", CHILD], capture_output=True, text=True, timeout=600
    )
    print("12-node ladder, kcuts('v11', 3):", (r.stdout + r.stderr).strip().splitlines()[-1])
    if r.returncode != 0:
        bad = True

    if bad:
        print("DEFECT: kcuts blows up on a dozen gates (duplicates are never merged)")
        return 1
    print("OK: kcuts returns each cut once")
    return 0


if __name__ == "__main__":
    sys.exit(main())
