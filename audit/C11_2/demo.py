"""C11_2: avg_sensitivity() crashes when `ns` is a one-element list/set (e.g. the
outputs of a single-output circuit); influence() drops the per-node level."""
import sys
import traceback

import circuitgraph as cg


def main():
    c = cg.Circuit()
    c.add("a", "input")
    c.add("b", "input")
    c.add("f", "and", fanin=["a", "b"], output=True)

    bad = False
    scalar = cg.props.avg_sensitivity(c, "f", approx=False)
    print("avg_sensitivity(c, 'f')          :", scalar, "(expected 1.0)")

    for label, ns in (("['f']", ["f"]), ("c.outputs()", c.outputs()), ("['f', 'f']", ["f", "f"])):
        print(f"avg_sensitivity(c, {label}) expected: {{'f': 1.0}}")
        try:
            got = cg.props.avg_sensitivity(c, ns, approx=False)
            print("   got:", got)
            if got != {"f": 1.0}:
                bad = True
        except Exception:
            print("   raised:", traceback.format_exc().strip().splitlines()[-1])
            bad = True

    got = cg.props.influence(c, ["f"], approx=False)
    print("influence(c, ['f']) expected: {'f': {'a': 0.5, 'b': 0.5}}")
    print("   got:", got)
    if got != {"f": {"a": 0.5, "b": 0.5}}:
        bad = True

    if bad:
        print("DEFECT PRESENT")
        return 1
    print("defect absent")
    return 0


if __name__ == "__main__":
    sys.exit(main())
