"""C02_1: conditional expressions cannot be nested or parenthesised.

The supported subset contains `?:` and parentheses with "any nesting", but the
grammar only accepts a conditional at the very top of an expression and only
with plain (non-conditional) operands.  Legal netlists are refused.
"""
import itertools
import sys

import circuitgraph as cg


def evaluate(c, node, env, memo=None):
    """Brute-force evaluation through the public structural API."""
    memo = {} if memo is None else memo
    if node in memo:
        return memo[node]
    t = c.type(node)
    if t == "input":
        v = env[node]
    elif t in ("0", "1"):
        v = int(t)
    else:
        xs = [evaluate(c, f, env, memo) for f in sorted(c.fanin(node))]
        v = {
            "buf": lambda: xs[0],
            "not": lambda: 1 - xs[0],
            "and": lambda: int(all(xs)),
            "nand": lambda: 1 - int(all(xs)),
            "or": lambda: int(any(xs)),
            "nor": lambda: 1 - int(any(xs)),
            "xor": lambda: sum(xs) % 2,
            "xnor": lambda: 1 - sum(xs) % 2,
        }[t]()
    memo[node] = v
    return v


INS = ["s", "t", "a", "b", "c"]
# (Verilog expression, reference function)
CASES = [
    ("(s ? a : b)", lambda s, t, a, b, c: a if s else b),
    ("(s ? a : b) & c", lambda s, t, a, b, c: (a if s else b) & c),
    ("~(s ? a : b)", lambda s, t, a, b, c: 1 - (a if s else b)),
    ("s ? a : t ? b : c", lambda s, t, a, b, c: a if s else (b if t else c)),
    ("s ? a : (t ? b : c)", lambda s, t, a, b, c: a if s else (b if t else c)),
    ("s ? t ? a : b : c", lambda s, t, a, b, c: (a if t else b) if s else c),
    ("(s ? t : a) ? b : c", lambda s, t, a, b, c: b if (t if s else a) else c),
]

bad = 0
for expr, ref in CASES:
    src = (
        "module top(s, t, a, b, c, y);\n"
        "  input s, t, a, b, c;\n"
        "  output y;\n"
        f"  assign y = {expr};\n"
        "endmodule\n"
    )
    try:
        circ = cg.io.verilog_to_circuit(src, "top")
    except Exception as e:  # noqa: BLE001
        first = str(e).strip().splitlines()[0] if str(e).strip() else ""
        print(f"assign y = {expr};")
        print("   expected: parsed, y computes the Verilog value")
        print(f"   got     : {type(e).__name__}: {first}")
        bad += 1
        continue
    wrong = None
    if circ.inputs() != set(INS) or circ.outputs() != {"y"}:
        wrong = f"ports {sorted(circ.inputs())} / {sorted(circ.outputs())}"
    else:
        for vs in itertools.product([0, 1], repeat=len(INS)):
            env = dict(zip(INS, vs))
            got = evaluate(circ, "y", env)
            if got != ref(*vs):
                wrong = f"y={got}, expected {ref(*vs)} under {env}"
                break
    print(f"assign y = {expr};")
    if wrong:
        print("   WRONG:", wrong)
        bad += 1
    else:
        print("   ok")

if bad:
    print(f"\nDEFECT PRESENT: {bad} of {len(CASES)} legal conditional expressions mishandled")
    sys.exit(1)
print("\nno defect: all nested / parenthesised conditionals parsed correctly")
sys.exit(0)
