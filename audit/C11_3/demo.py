"""C11_3: on a circuit without outputs the sensitization miter has an undriven,
free `sat` node, so sensitize() reports a sensitizing valuation although there is
no endpoint that could change."""
import sys

import circuitgraph as cg


def main():
    c = cg.Circuit()
    c.add("a", "input")
    c.add("b", "input")
    c.add("g", "and", fanin=["a", "b"])  # no node is marked as output
    cg.utils.lint(c)  # the circuit is lint-clean

    bad = False
    print("circuit: g = and(a, b), no outputs -> no endpoint can ever change")
    for n in ("g", "a"):
        r = cg.props.sensitize(c, n)
        print(f"sensitize(c, {n!r}) expected: None   got: {r}")
        if r is not None:
            bad = True

    m = cg.tx.sensitization_transform(c, "g")
    print("sensitization_transform: type/fanin of 'sat':", m.type("sat"), sorted(m.fanin("sat")))
    try:
        cg.utils.lint(m)
        print("miter is lint-clean")
    except ValueError as e:
        print("miter is not lint-clean:", e)
    cnt = cg.sat.model_count(m, {"sat": True})
    print("input valuations with sat=1: expected 0, got", cnt)
    if cnt != 0:
        bad = True

    if bad:
        print("DEFECT PRESENT")
        return 1
    print("defect absent")
    return 0


if __name__ == "__main__":
    sys.exit(main())
