"""C02_3: a comment that mentions `endmodule` truncates the module.

verilog_to_circuit() cuts the module out of the file with a regular expression
that knows nothing about comments: the first word `endmodule` - also one
inside a `// ...` or `/* ... */` comment - ends the module.  The remainder is
dropped and the (legal) netlist is refused with a parser error.
"""
import itertools
import sys

import circuitgraph as cg


def evaluate(c, node, env, memo=None):
    """Brute-force evaluation through the public structural API."""
    memo = {} if memo is None else memo
    if node in memo:
        return memo[node]
    t = c.type(node)
    if t == "input":
        v = env[node]
    elif t in ("0", "1"):
        v = int(t)
    else:
        xs = [evaluate(c, f, env, memo) for f in sorted(c.fanin(node))]
        v = {
            "buf": lambda: xs[0],
            "not": lambda: 1 - xs[0],
            "and": lambda: int(all(xs)),
            "nand": lambda: 1 - int(all(xs)),
            "or": lambda: int(any(xs)),
            "nor": lambda: 1 - int(any(xs)),
            "xor": lambda: sum(xs) % 2,
            "xnor": lambda: 1 - sum(xs) % 2,
        }[t]()
    memo[node] = v
    return v


BODY = "  input a, b;\n  output y;\n  wire w;\n"
CASES = {
    "line comment mentioning endmodule": (
        "module top(a, b, y);\n" + BODY
        + "  and g0(w, a, b);\n"
        + "  // w is inverted just before endmodule\n"
        + "  not g1(y, w);\n"
        + "endmodule\n"
    ),
    "block comment mentioning endmodule": (
        "module top(a, b, y);\n" + BODY
        + "  and g0(w, a, b);\n"
        + "  /* gates up to endmodule: one inverter */\n"
        + "  not g1(y, w);\n"
        + "endmodule\n"
    ),
    "trailing comment on a statement": (
        "module top(a, b, y);\n" + BODY
        + "  and g0(w, a, b); // endmodule follows after the next gate\n"
        + "  not g1(y, w);\n"
        + "endmodule\n"
    ),
    "commented-out endmodule": (
        "module top(a, b, y);\n" + BODY
        + "  and g0(w, a, b);\n"
        + "  // endmodule\n"
        + "  not g1(y, w);\n"
        + "endmodule\n"
    ),
}
# same root cause, reported for information only (does not affect the exit code)
RELATED = {
    "comment between module name and port list": (
        "module top /* ports */ (a, b, y);\n" + BODY
        + "  and g0(w, a, b);\n  not g1(y, w);\nendmodule\n"
    ),
}


def check(src):
    try:
        c = cg.io.verilog_to_circuit(src, "top")
    except Exception as e:  # noqa: BLE001
        msg = str(e).strip().splitlines()
        return f"{type(e).__name__}: {msg[0] if msg else ''}"
    if c.inputs() != {"a", "b"} or c.outputs() != {"y"}:
        return f"ports {sorted(c.inputs())} / {sorted(c.outputs())}"
    for a, b in itertools.product([0, 1], repeat=2):
        got = evaluate(c, "y", {"a": a, "b": b})
        if got != 1 - (a & b):
            return f"y={got} for a={a} b={b}, expected {1 - (a & b)}"
    return None


bad = 0
for title, src in CASES.items():
    res = check(src)
    print(f"{title}:")
    print("   expected: inputs a,b; output y = ~(a & b)")
    print("   got     :", res or "as expected")
    bad += res is not None
for title, src in RELATED.items():
    res = check(src)
    print(f"[related] {title}:")
    print("   got     :", res or "as expected")

if bad:
    print(f"\nDEFECT PRESENT: {bad} of {len(CASES)} netlists with a comment containing 'endmodule' mishandled")
    sys.exit(1)
print("\nno defect: comments mentioning endmodule are ignored")
sys.exit(0)
