"""fill_blackbox merges a blackbox output pin with a sub-circuit output that is
itself a blackbox pin, leaving a bb_input with fan-out / a bb_output that
drives two nodes."""
import sys

import circuitgraph as cg


def violations(c):
    """Independent check of the wiring rules of property C07."""
    v = []
    g = c.graph
    for n in g.nodes:
        t = g.nodes[n].get("type")
        fi, fo = set(g.predecessors(n)), set(g.successors(n))
        if t in ("input", "0", "1", "x", "bb_output") and fi:
            v.append(f"fan-in on {t} '{n}': {sorted(fi)}")
        if t in ("buf", "not", "bb_input") and len(fi) > 1:
            v.append(f"{len(fi)} fan-ins on {t} '{n}': {sorted(fi)}")
        if t == "bb_input" and fo:
            v.append(f"fan-out from bb_input '{n}': {sorted(fo)}")
        if t == "bb_output":
            if len(fo) > 1:
                v.append(f"bb_output '{n}' drives {len(fo)} nodes: {sorted(fo)}")
            for f in fo:
                if g.nodes[f].get("type") != "buf":
                    v.append(f"bb_output '{n}' drives non-buf '{f}'")
    return v


def sub(kind):
    """A legal circuit whose only output is a pin of a nested blackbox."""
    c = cg.Circuit("sub")
    c.add("a", "input")
    ff = cg.BlackBox("ff", ["d"], ["q"])
    if kind == "bb_input":
        c.add_blackbox(ff, "inner", {"d": "a"})
        c.set_output("inner.d")  # the flop's D pin is observed
        out = "inner.d"
    else:
        c.add("r", "buf")
        c.add_blackbox(ff, "inner", {"d": "a", "q": "r"})
        c.set_output("inner.q")  # the flop's Q pin is observed
        out = "inner.q"
    assert not violations(c), violations(c)
    return c, out


bad = False
for kind in ("bb_input", "bb_output"):
    c, out = sub(kind)
    top = cg.Circuit("top")
    top.add("x", "input")
    top.add("w", "buf", output=True)
    top.add_blackbox(cg.BlackBox("sub", ["a"], [out]), "bb", {"a": "x", out: "w"})
    assert not violations(top), violations(top)
    print(f"--- sub-circuit output '{out}' has type {kind}")
    print("expected: fill_blackbox raises ValueError (as add_subcircuit does for the")
    print("          same connection) or leaves a legally wired circuit")
    try:
        top.fill_blackbox("bb", c)
        res = "returned normally"
    except ValueError as e:
        res = f"raised ValueError: {e}"
    v = violations(top)
    print(f"happened: fill_blackbox {res}; edges = {sorted(top.edges())}")
    if v:
        bad = True
        for x in v:
            print("  ILLEGAL WIRING:", x)
    else:
        print("  circuit is legally wired")

sys.exit(1 if bad else 0)
