"""C11_1: influence()/avg_sensitivity() with supergates=True (exact mode) are wrong
for a single 3-input AND gate."""
import sys
from itertools import product

import circuitgraph as cg


def build():
    c = cg.Circuit()
    for i in ("a", "b", "c"):
        c.add(i, "input")
    c.add("n", "and", fanin=["a", "b", "c"], output=True)
    return c


def brute_force_influence():
    f = lambda a, b, c: a and b and c
    names = ("a", "b", "c")
    infl = {}
    for k, s in enumerate(names):
        flips = 0
        for vs in product([False, True], repeat=3):
            ws = list(vs)
            ws[k] = not ws[k]
            flips += f(*vs) != f(*ws)
        infl[s] = flips / 8
    return infl


def main():
    c = build()
    expected = brute_force_influence()
    plain = cg.props.influence(c, "n", approx=False)
    sg = cg.props.influence(c, "n", approx=False, supergates=True)
    avg = cg.props.avg_sensitivity(c, "n", approx=False, supergates=True)
    print("circuit: n = and(a, b, c)")
    print("expected influence (definition)     :", dict(sorted(expected.items())))
    print("influence(supergates=False)         :", dict(sorted(plain.items())))
    print("influence(supergates=True)          :", dict(sorted(sg.items())))
    print("expected avg_sensitivity            :", sum(expected.values()))
    print("avg_sensitivity(supergates=True)    :", avg)
    bad = False
    if set(sg) != set(expected) or any(abs(sg[s] - expected[s]) > 1e-12 for s in expected):
        bad = True
    if abs(avg - sum(expected.values())) > 1e-12:
        bad = True
    if bad:
        print("DEFECT PRESENT: supergates=True does not give the fraction of valuations")
        return 1
    print("defect absent")
    return 0


if __name__ == "__main__":
    sys.exit(main())
