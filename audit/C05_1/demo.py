"""
C05_1: tx.insert_registers does not terminate on small reconvergent circuits
and crashes with RecursionError on deep ones.

insert_registers() calls Circuit.fanin_depth(n) for every node.  fanin_depth is
a recursive traversal that re-propagates a node every time it is reached again,
so its running time doubles with every level of a circuit in which consecutive
levels are fully connected, and its recursion depth equals the logic depth.

Run as:  PYTHONPATH=<tree>:/tmp/sat_standin python demo.py
exit 1 = defect present, exit 0 = absent.
"""
import os
import subprocess
import sys
import time

import networkx as nx

import circuitgraph as cg

LEVELS = 36  # 2 inputs + 36 levels of 2 gates + 1 output = 75 nodes
CHAIN = 1500  # inverter chain, logic depth 1500
TIMEOUT = 30  # seconds; a linear-time implementation needs milliseconds


def ladder(levels):
    """2 gates per level, each gate reads both gates of the previous level."""
    c = cg.Circuit("ladder")
    prev = [c.add("a", "input"), c.add("b", "input")]
    for lvl in range(levels):
        prev = [
            c.add(f"p{lvl}", "and" if lvl % 2 else "or", fanin=prev),
            c.add(f"q{lvl}", "xor", fanin=prev),
        ]
    c.add("o", "nand", fanin=prev, output=True)
    return c


def chain(length):
    c = cg.Circuit("chain")
    p = c.add("a", "input")
    for j in range(length):
        p = c.add(f"n{j}", "not", fanin=p)
    c.set_output(p)
    return c


def reference_depths(c):
    """Longest-path depth of every node, one pass in topological order."""
    d = {}
    for n in nx.topological_sort(c.graph):
        d[n] = max((d[p] + 1 for p in c.graph.predecessors(n)), default=0)
    return d


def check_result(c, r, num_stages):
    """The flops must sit exactly on the nodes of the selected depths."""
    d = reference_depths(c)
    max_depth = max(d.values())
    inc = round(max_depth / (num_stages + 1))
    expected = {n for n in c if d[n] in range(inc, max_depth, inc)}
    got = {r.fanin(f"{bb}.d").pop() for bb in r.blackboxes}
    return expected == got


def child(which):
    c = ladder(LEVELS) if which == "ladder" else chain(CHAIN)
    cg.lint(c)
    r = cg.tx.insert_registers(c, 2)
    cg.lint(r)
    ok = check_result(c, r, 2)
    print(f"    insert_registers returned, {len(r.blackboxes)} flops, placement ok: {ok}")
    sys.exit(0 if ok else 3)


def run(which):
    t = time.time()
    try:
        p = subprocess.run(
            [sys.executable, os.path.abspath(__file__), "--child", which],
            timeout=TIMEOUT,
            capture_output=True,
            text=True,
            env=os.environ,
        )
    except subprocess.TimeoutExpired:
        print(f"    got     : no result after {TIMEOUT} s (killed)")
        return False
    out = (p.stdout + p.stderr).strip().splitlines()
    if p.returncode == 0:
        print(out[-1])
        print(f"    got     : result after {time.time() - t:.1f} s")
        return True
    print(f"    got     : exit status {p.returncode}: {out[-1] if out else ''}")
    return False


def main():
    if len(sys.argv) == 3 and sys.argv[1] == "--child":
        child(sys.argv[2])

    bad = False

    c = ladder(LEVELS)
    t = time.time()
    d = reference_depths(c)
    print(
        f"[1] ladder circuit: {len(c)} nodes, logic depth {max(d.values())}, "
        f"acyclic, lint-clean (reference depth pass took {time.time() - t:.4f} s)"
    )
    print("    expected: insert_registers(c, 2) returns the pipelined circuit (flops at depths 12, 24, 36) at once")
    if not run("ladder"):
        bad = True

    c = chain(CHAIN)
    print(f"[2] inverter chain: {len(c)} nodes, logic depth {CHAIN}")
    print("    expected: insert_registers(c, 2) returns a circuit with 2 flops")
    if not run("chain"):
        bad = True

    if bad:
        print("DEFECT PRESENT: insert_registers hangs / crashes on legal acyclic circuits")
        sys.exit(1)
    print("defect absent")
    sys.exit(0)


if __name__ == "__main__":
    main()
