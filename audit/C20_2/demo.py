"""C20_2: fast Verilog parser leaves 1'h0 / 1'h1 / 1'd0 / 1'd1 in port lists as
untyped nodes, although its docstring allows these constants."""
import sys

import circuitgraph as cg

ff = cg.generic_flop
netlist = """module m(a, ck, o, p);
  input a, ck;
  output o, p;
  wire w;
  and g0(w, a, 1'h1);
  or g1(o, w, 1'd0);
  ff f0(.clk(ck), .d(1'h0), .q(p));
endmodule
"""


def lint_result(c):
    try:
        cg.lint(c)
        return None
    except ValueError as e:
        return str(e)


bad = 0
for label, text in (
    ("b constants (reference)", netlist.replace("'h", "'b").replace("'d", "'b")),
    ("h/d constants", netlist),
):
    c = cg.io.verilog_to_circuit(text, "m", blackboxes=[ff], fast=True)
    untyped = sorted(n for n in c.nodes() if "type" not in c.graph.nodes[n])
    got = lint_result(c)
    print(f"[{label}]")
    print("   expected: every node typed, constants become '0'/'1' nodes, lint clean")
    print("   untyped nodes:", untyped)
    print("   fanin(w) =", sorted(c.fanin("w")), " fanin(o) =", sorted(c.fanin("o")),
          " fanin(f0.d) =", sorted(c.fanin("f0.d")))
    print("   lint ->", got or "clean")
    if untyped or got is not None:
        bad += 1

if bad:
    print("DEFECT PRESENT")
    sys.exit(1)
print("defect absent")
sys.exit(0)
