"""C10_1: tx.ternary refuses circuits that contain the documented constant type 'x'.

Run as:  PYTHONPATH=<tree>:/tmp/sat_standin python demo.py
exit 1 = defect present, exit 0 = absent.
"""
import itertools
import sys

import circuitgraph as cg

VERILOG = """
module m(a, y, z);
  input a;
  output y, z;
  assign y = a & 1'bx;
  assign z = a | 1'bx;
endmodule
"""


def gate(t, fi):
    if t == "and":
        return int(all(fi))
    if t == "nand":
        return int(not all(fi))
    if t == "or":
        return int(any(fi))
    if t == "nor":
        return int(not any(fi))
    if t == "xor":
        return sum(fi) % 2
    if t == "xnor":
        return 1 - sum(fi) % 2
    if t == "buf":
        return fi[0]
    if t == "not":
        return 1 - fi[0]
    if t in "01":
        return int(t)
    raise ValueError(t)


def simulate(c, free):
    """Plain two-valued simulation; `free` gives values of inputs and 'x' nodes."""
    vals = {}
    for n in c.topo_sort():
        if c.type(n) in ("input", "x"):
            vals[n] = free[n]
        else:
            vals[n] = gate(c.type(n), [vals[p] for p in sorted(c.fanin(n))])
    return vals


def main():
    # the circuit can equally be built with c.add('k', 'x'); the parser route shows
    # that ordinary netlists produce such nodes
    c = cg.io.verilog_to_circuit(VERILOG, "m")
    xs = sorted(c.filter_type("x"))
    print("circuit nodes:", {n: c.type(n) for n in c})
    cg.lint(c)  # lint-clean, no blackboxes
    assert not c.blackboxes and len(xs) == 1

    # Kleene expectation: X-constant k, y = a & k, z = a | k
    #   a=0: y=0 (known)  z=X      a=1: y=X  z=1 (known)      a=X: y=X z=X
    expected = {
        0: {"y": 0, "z": "X"},
        1: {"y": "X", "z": 1},
        "X": {"y": "X", "z": "X"},
    }
    print("expected: ternary(c) returns (t, mapping); mapping[k]=1 always for the")
    print("          'x' node k, and y/z follow Kleene:", expected)

    try:
        t, mapping = cg.tx.ternary(c)
    except Exception as e:  # noqa
        print(f"happened: ternary(c) raised {type(e).__name__}: {e}")
        return 1

    bad = 0
    k = xs[0]
    for a in (0, 1, "X"):
        for a_bin, k_bin in itertools.product([0, 1], repeat=2):
            free = {n: 0 for n in t.inputs() | t.filter_type("x")}
            free[mapping["a"]] = int(a == "X")
            free["a"] = a_bin if a == "X" else a
            free[k] = k_bin
            vals = simulate(t, free)
            if vals[mapping[k]] != 1:
                print(f"happened: companion of x-constant {k} is 0")
                bad = 1
            for o in ("y", "z"):
                exp = expected[a][o]
                if exp == "X":
                    ok = vals[mapping[o]] == 1
                else:
                    ok = vals[mapping[o]] == 0 and vals[o] == exp
                if not ok:
                    print(f"happened: a={a} {o}: X-rail={vals[mapping[o]]} value={vals[o]}, expected {exp}")
                    bad = 1
    if not bad:
        print("happened: ternary handles the 'x' constant as expected")
    return bad


if __name__ == "__main__":
    sys.exit(main())
