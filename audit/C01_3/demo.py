"""C01_3: approx_model_count(startpoints=<iterator>, use_xor_clauses=True) loses the sampling set.

`approxmc` is not installed here, so this demo puts a tiny exact stand-in for it
on PATH (ordinary clause: at least one literal true; xor clause `x l1 ... 0`:
an odd number of literals true; prints the exact projected count on the
`c ind` sampling set as `s mc N`; like approxmc, an empty sampling set means
"all variables").
"""
import itertools
import os
import stat
import sys
import tempfile

STUB = r'''#!%s
import itertools, sys
path = [a for a in sys.argv[1:] if not a.startswith("--")][-1]
ind, clauses, xors, nv = [], [], [], 0
for line in open(path):
    line = line.strip()
    if not line:
        continue
    if line.startswith("c ind"):
        ind += [int(t) for t in line.split()[2:-1]]
    elif line.startswith("c"):
        continue
    elif line.startswith("p cnf"):
        nv = int(line.split()[2])
    elif line.startswith("x"):
        xors.append([int(t) for t in line[1:].split()[:-1]])
    else:
        clauses.append([int(t) for t in line.split()[:-1]])
for cl in clauses + xors:
    for l in cl:
        nv = max(nv, abs(l))
if not ind:
    ind = list(range(1, nv + 1))
seen = set()
for bits in itertools.product([False, True], repeat=nv):
    val = lambda l: bits[abs(l) - 1] == (l > 0)
    if all(any(val(l) for l in cl) for cl in clauses) and all(
        sum(val(l) for l in x) %% 2 == 1 for x in xors
    ):
        seen.add(tuple(bits[v - 1] for v in ind))
print("c -- xor clauses added: %%d" %% len(xors))
print("s SATISFIABLE" if seen else "s UNSATISFIABLE")
print("s mc %%d" %% len(seen))
''' % sys.executable


def install_stub():
    d = tempfile.mkdtemp(prefix="approxmc_stub_")
    p = os.path.join(d, "approxmc")
    with open(p, "w") as f:
        f.write(STUB)
    os.chmod(p, os.stat(p).st_mode | stat.S_IXUSR | stat.S_IXGRP | stat.S_IXOTH)
    os.environ["PATH"] = d + os.pathsep + os.environ.get("PATH", "")


def main():
    install_stub()
    import circuitgraph as cg

    c = cg.Circuit()
    c.add("a", "input")
    c.add("b", "input")
    c.add("c", "input")
    c.add("g", "xor", fanin=["a", "b", "c"], output=True)
    cg.lint(c)

    # Count the assignments of startpoint 'a' alone that extend to a model:
    # both do, so the answer is 2 whatever container carries the name.
    expected = 2
    makers = {
        "list": lambda: ["a"],
        "set": lambda: {"a"},
        "tuple": lambda: ("a",),
        "list iterator": lambda: iter(["a"]),
        "generator": lambda: (n for n in c.inputs() if n == "a"),
        "filter object": lambda: filter(lambda n: n == "a", c.inputs()),
    }
    bad = 0
    for use_xor in (False, True):
        for label, mk in makers.items():
            got = cg.sat.approx_model_count(
                c, assumptions={}, startpoints=mk(), use_xor_clauses=use_xor
            )
            flag = "" if got == expected else "   <-- WRONG"
            print(
                f"use_xor_clauses={use_xor!s:5} startpoints={label:13}: "
                f"{got} (expected {expected}){flag}"
            )
            bad += got != expected
    if bad:
        print(
            "DEFECT PRESENT: with use_xor_clauses=True an iterator of startpoints "
            "(docstring: 'iter of str') is consumed before the sampling set is written"
        )
        return 1
    print("ok")
    return 0


if __name__ == "__main__":
    sys.exit(main())
