"""C03_3: an escaped identifier that ends in `endmodule` truncates the module.

verilog_to_circuit cuts the module text at the first `endmodule` that is not
preceded by a word character; inside an escaped identifier such as `\\endmodule`
or `\\bus-endmodule` the keyword is preceded by `\\` or `-`.

Run as: PYTHONPATH=<tree>:/tmp/sat_standin python demo.py
Exit 1 when the defect is present, 0 when it is absent.
"""
import os
import sys
import tempfile

import circuitgraph as cg
from circuitgraph.io import circuit_to_verilog, verilog_to_circuit


def build(net):
    c = cg.Circuit("top")
    c.add("a", "input")
    c.add("b", "input")
    c.add(net, "nand", fanin=["a", "b"])
    c.add("o", "xor", fanin=[net, "a"], output=True)
    cg.lint(c)
    return c


def describe(c):
    return (
        c.name,
        sorted(c.nodes()),
        sorted(c.edges()),
        sorted((n, c.type(n), c.is_output(n)) for n in c.nodes()),
    )


def truth(c):
    # brute force evaluation of output o (the circuits here are tiny and acyclic)
    import itertools

    import networkx as nx

    rows = []
    for a, b in itertools.product([0, 1], repeat=2):
        val = {}
        for n in nx.topological_sort(c.graph):
            t = c.type(n)
            fi = [val[f] for f in c.fanin(n)]
            if t == "input":
                val[n] = {"a": a, "b": b}[n]
            elif t == "buf":
                val[n] = fi[0]
            elif t == "not":
                val[n] = 1 - fi[0]
            elif t in ("and", "nand"):
                val[n] = int(all(fi)) ^ (t == "nand")
            elif t in ("or", "nor"):
                val[n] = int(any(fi)) ^ (t == "nor")
            elif t in ("xor", "xnor"):
                val[n] = (sum(fi) % 2) ^ (t == "xnor")
        rows.append(val["o"])
    return rows


def main():
    bad = False
    for net in ("\\endmodule", "\\bus-endmodule", "\\n[endmodule]"):
        for behavioral in (False, True):
            c = build(net)
            print(f"--- net {net!r}, behavioral={behavioral}")
            print("expected:", "identical graph" if not behavioral else f"o = {truth(c)}")
            try:
                text = circuit_to_verilog(c, behavioral=behavioral)
                d = verilog_to_circuit(text, c.name)
                if behavioral:
                    ok = d.inputs() == c.inputs() and d.outputs() == c.outputs() and truth(d) == truth(c)
                else:
                    ok = describe(d) == describe(c)
                print("got     :", "as expected" if ok else f"different circuit {describe(d)}")
                bad |= not ok
            except Exception as e:  # noqa: BLE001
                first = str(e).strip().splitlines()[0] if str(e).strip() else ""
                print(f"got     : {type(e).__name__}: {first}")
                bad = True

    c = build("\\endmodule")
    path = os.path.join(tempfile.mkdtemp(), "top.v")
    print("--- to_file / from_file with net '\\\\endmodule'")
    try:
        cg.to_file(c, path)
        d = cg.from_file(path)
        ok = describe(d) == describe(c)
        print("got     :", "identical graph" if ok else "different circuit")
        bad |= not ok
    except Exception as e:  # noqa: BLE001
        print(f"got     : {type(e).__name__}: {str(e).strip().splitlines()[0]}")
        bad = True

    # control: the same circuit with a harmless escaped name round-trips
    c = build("\\bus-end")
    d = verilog_to_circuit(circuit_to_verilog(c), c.name)
    print("control net '\\\\bus-end' round-trips:", describe(d) == describe(c))

    print("DEFECT PRESENT" if bad else "defect absent")
    return 1 if bad else 0


if __name__ == "__main__":
    sys.exit(main())
