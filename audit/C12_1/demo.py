"""C12_1: fanin_depth / fanout_depth need exponential time on small DAGs and
overflow the recursion stack on long chains.

Exits 1 when the defect is present, 0 when it is absent.
"""
import signal
import sys
import time

import networkx as nx

import circuitgraph as cg

LIMIT = 15  # seconds allowed per query; a linear algorithm needs milliseconds


class Timeout(Exception):
    pass


def _alarm(*_):
    raise Timeout


signal.signal(signal.SIGALRM, _alarm)


def reference_depths(c):
    """Longest path length to a source (din) and to a sink (dout) per node."""
    order = list(nx.topological_sort(c.graph))
    din, dout = {}, {}
    for n in order:
        din[n] = max((din[p] + 1 for p in c.graph.predecessors(n)), default=0)
    for n in reversed(order):
        dout[n] = max((dout[s] + 1 for s in c.graph.successors(n)), default=0)
    return din, dout


def ladder(k):
    """v0 input, v1 = buf(v0), v[i] = and(v[i-1], v[i-2]): k nodes, 2k-3 edges."""
    c = cg.Circuit()
    c.add("v0", "input")
    c.add("v1", "buf", fanin="v0")
    for i in range(2, k):
        c.add(f"v{i}", "and", fanin=[f"v{i-1}", f"v{i-2}"])
    c.set_output(f"v{k-1}")
    return c


def chain(k):
    c = cg.Circuit()
    c.add("n0", "input")
    for i in range(1, k):
        c.add(f"n{i}", "buf", fanin=f"n{i-1}")
    c.set_output(f"n{k-1}")
    return c


def run(label, fn, expected):
    signal.alarm(LIMIT)
    t = time.time()
    try:
        got = fn()
        outcome = f"returned {got}"
        ok = got == expected
    except Timeout:
        outcome = f"did not return within {LIMIT} s"
        ok = False
    except RecursionError:
        outcome = "raised RecursionError"
        ok = False
    finally:
        signal.alarm(0)
    print(f"{label}: expected {expected}, {outcome} ({time.time() - t:.2f} s)")
    return ok


def main():
    ok = True

    # growth on small ladders: time multiplies by ~2.6 for every two extra gates
    for k in (20, 24, 28):
        c = ladder(k)
        t = time.time()
        c.fanout_depth("v0")
        print(f"ladder with {k} nodes: fanout_depth('v0') took {time.time() - t:.3f} s")

    c = ladder(64)
    din, dout = reference_depths(c)
    ok &= run("64-node ladder  fanout_depth('v0') ", lambda: c.fanout_depth("v0"), dout["v0"])
    ok &= run("64-node ladder  fanin_depth('v63') ", lambda: c.fanin_depth("v63"), din["v63"])

    c = chain(3000)
    din, dout = reference_depths(c)
    ok &= run("3000-node chain fanout_depth('n0')   ", lambda: c.fanout_depth("n0"), dout["n0"])
    ok &= run("3000-node chain fanin_depth('n2999') ", lambda: c.fanin_depth("n2999"), din["n2999"])

    if ok:
        print("OK: depth queries agree with the longest-path definition")
        return 0
    print("DEFECT: fanin_depth/fanout_depth do not deliver the longest path length")
    return 1


if __name__ == "__main__":
    sys.exit(main())
