import circuitgraph as cg
v="""module m(a,y,z);
input a; output y,z;
assign y = a & 1'bx;
assign z = a | 1'bx;
endmodule
"""
for fast in (False,True):
    try:
        c=cg.io.verilog_to_circuit(v,"m",fast=fast)
        print(fast, c.graph.nodes(data=True), c.graph.edges())
        cg.lint(c)
        t,m=cg.tx.ternary(c)
        print(m)
    except Exception as e:
        print(fast,'EXC',repr(e))
