import itertools
def gate(t, vals):
    if t in ("buf","bb_input"): return vals[0]
    if t=="not": return not vals[0]
    if t=="and": return all(vals)
    if t=="nand": return not all(vals)
    if t=="or": return any(vals)
    if t=="nor": return not any(vals)
    if t=="xor": return sum(vals)%2==1
    if t=="xnor": return sum(vals)%2==0
    raise ValueError(t)

def consistent_count(c, assumptions=None, nodes=None):
    """number of startpoint valuations extending to a consistent valuation satisfying assumptions (brute force over all nodes that are not determined)."""
    assumptions = assumptions or {}
    nodes = list(c.nodes()) if nodes is None else list(nodes)
    sp = [n for n in nodes if c.type(n) in ("input","bb_output")]
    others = [n for n in nodes if n not in sp]
    import networkx as nx
    acyclic = nx.is_directed_acyclic_graph(c.graph)
    cnt = 0
    if acyclic:
        order = [n for n in nx.topological_sort(c.graph) if n in set(nodes)]
        for vals in itertools.product([False,True], repeat=len(sp)):
            v = dict(zip(sp, vals))
            for n in order:
                t = c.type(n)
                if n in v: continue
                if t=="0": v[n]=False
                elif t=="1": v[n]=True
                else:
                    v[n]=gate(t,[v[f] for f in c.graph.predecessors(n)])
            if all(v[k]==bool(a) for k,a in assumptions.items()):
                cnt+=1
        return cnt
    for vals in itertools.product([False,True], repeat=len(sp)):
        v = dict(zip(sp, vals))
        ok=False
        for ov in itertools.product([False,True], repeat=len(others)):
            v.update(zip(others,ov))
            good=True
            for n in others:
                t=c.type(n)
                if t=="0": e=False
                elif t=="1": e=True
                else: e=gate(t,[v[f] for f in c.graph.predecessors(n)])
                if v[n]!=e: good=False;break
            if good and all(v[k]==bool(a) for k,a in assumptions.items()):
                ok=True;break
        cnt+=ok
    return cnt
