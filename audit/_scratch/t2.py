from h import *
seed=int(sys.argv[1]) if len(sys.argv)>1 else 0
random.seed(seed)
names=['a','a_X','a_X_0','a_X_X','b','b_X','b_is_0','b_is_1','b_not_x','g_x_in_fi','g','g_0_not_in_fi','g_1_not_in_fi','\\a$','module','x_X','X','_X','__X','g_X_1','a_is_0_0','a_X_is_0','a_X_1','a_X_0_X']
for it in range(400):
    nm=random.sample(names,random.randint(2,9))
    ni=random.randint(1,3)
    spec=[]
    nodes=[]
    for i,n in enumerate(nm):
        if i<ni: spec.append((n,'input',[],random.random()<.2))
        else:
            t=random.choice(['and','nand','or','nor','xor','xnor','buf','not','0','1'])
            if t in '01': spec.append((n,t,[],random.random()<.5))
            elif t in ('buf','not'): spec.append((n,t,[random.choice(nodes)],random.random()<.5))
            else: spec.append((n,t,random.sample(nodes,random.randint(1,min(4,len(nodes)))),random.random()<.5))
        nodes.append(n)
    c=cg.Circuit()
    order=spec[:]; random.shuffle(order)
    for n,t,fi,o in order: c.add(n,t,output=o)
    for n,t,fi,o in order:
        random.shuffle(fi)
        for f in fi: c.connect(f,n)
    try:
        t,m=check(c, use_sat=(it%10==0))
        if it%5==0:
            check(t)
    except Exception as e:
        import traceback; traceback.print_exc()
        print('FAIL',repr(e)); print(c.graph.nodes(data=True)); print(c.graph.edges()); break
else: print('ok')
