"""
A collection of common logic elements as `Circuit` objects.

They can be added to existing circuits using `Circuit.add_subcircuit`

Examples
--------
Either add `a` and `c` or `b` and `c` depending on `sel`.

>>> import circuitgraph as cg

>>> a = cg.logic.half_adder()
>>> m = cg.logic.mux(2)

>>> c = cg.Circuit()
>>> c.add("a", "input")
'a'
>>> c.add("b", "input")
'b'
>>> c.add("c", "input")
'c'
>>> c.add("sel", "input")
'sel'
>>> c.add("d", "buf")
'd'
>>> c.add("sum", "buf", output=True)
'sum'
>>> c.add("carry", "buf", output=True)
'carry'

Add mux subcircuit

>>> mux_conns = {"in_0": "a", "in_1": "b", "sel_0": "sel", "out": "d"}
>>> c.add_subcircuit(m, "mux", mux_conns)

Add adder subcircuit

>>> add_conns = {"x": "c", "y": "d", "c": "carry", "s": "sum"}
>>> c.add_subcircuit(a, "adder", add_conns)

Simulate to verify

>>> res = cg.sat.solve(c, {"a": 0, "b": 1, "c": 1, "sel": 0}) # a + c
>>> res["sum"]
True
>>> res["carry"]
False

>>> res = cg.sat.solve(c, {"a": 0, "b": 1, "c": 1, "sel": 1}) # b + c
>>> res["sum"]
False
>>> res["carry"]
True

"""
from itertools import product

import circuitgraph as cg


def half_adder():
    """
    Create an AND/XOR half adder.

    Returns
    -------
    Circuit
            Half adder circuit.

    """
    c = cg.Circuit(name="half_adder")
    ins = [c.add("x", "input"), c.add("y", "input")]
    c.add("c", "and", fanin=ins, output=True)
    c.add("s", "xor", fanin=ins, output=True)
    return c


def full_adder():
    """
    Create a full adder from two half adders.

    Returns
    -------
    Circuit
            Full adder circuit.

    """
    c = cg.Circuit("full_adder")
    c.add("x", "input")
    c.add("y", "input")
    c.add("cin", "input")

    c.add_subcircuit(half_adder(), "x_y_ha", connections={"x": "x", "y": "y"})
    c.add_subcircuit(
        half_adder(), "cin_s_ha", connections={"x": "x_y_ha_s", "y": "cin"}
    )

    c.add("cout", "or", fanin=["x_y_ha_c", "cin_s_ha_c"], output=True)
    c.add("s", "buf", fanin="cin_s_ha_s", output=True)
    return c


def adder(width, carry_in=False, carry_out=False):
    """
    Create a ripple carry adder.

    Parameters
    ----------
    width : int
            Input width of adder.
    carry_in: bool
            Add a carry input.
    carry_out: bool
            Add a carry output.

    Returns
    -------
    Circuit
            Adder circuit.

    """
    c = cg.Circuit(name="adder")
    carry = c.add("cin", "input" if carry_in else "0")
    for bit in range(width):
        a = c.add(f"a_{bit}", "input")
        b = c.add(f"b_{bit}", "input")
        out = c.add(f"out_{bit}", "buf", output=True)
        c.add_subcircuit(
            full_adder(), f"fa_{bit}", {"x": a, "y": b, "cin": carry, "s": out}
        )
        carry = f"fa_{bit}_cout"

    if carry_out:
        c.add("cout", "buf", fanin=carry, output=True)
    return c


def mux(w):
    """
    Create a mux.

    Parameters
    ----------
    w : int
            Input width of the mux.

    Returns
    -------
    Circuit
            Mux circuit.

    """
    c = cg.Circuit(name="mux")

    # create inputs
    for i in range(w):
        c.add(f"in_{i}", "input")
    sels = []
    for i in range(cg.utils.clog2(w)):
        c.add(f"sel_{i}", "input")
        c.add(f"not_sel_{i}", "not", fanin=f"sel_{i}")
        sels.append([f"not_sel_{i}", f"sel_{i}"])

    # create output or
    c.add("out", "or", output=True)

    i = 0
    for sel in product(*sels[::-1]):
        c.add(f"and_{i}", "and", fanin=[*sel, f"in_{i}"], fanout="out")

        i += 1
        if i == w:
            break

    return c


def popcount(w):
    """
    Create a population count circuit.

    Parameters
    ----------
    w : int
            Input width of the circuit.

    Returns
    -------
    Circuit
            Population count circuit.

    """
    c = cg.Circuit(name="popcount")
    ps = [[c.add(f"in_{i}", "input")] for i in range(w)]
    c.add("tie0", "0")

    i = 0
    while len(ps) > 1:
        # get values
        ns = ps.pop(0)
        ms = ps.pop(0)

        # pad
        aw = max(len(ns), len(ms))
        while len(ms) < aw:
            ms += ["tie0"]
        while len(ns) < aw:
            ns += ["tie0"]

        # instantiate and connect adder
        c.add_subcircuit(adder(aw, carry_out=True), f"add_{i}")
        c.relabel({f"add_{i}_cout": f"add_{i}_out_{aw}"})
        for j, (n, m) in enumerate(zip(ns, ms)):
            c.connect(n, f"add_{i}_a_{j}")
            c.connect(m, f"add_{i}_b_{j}")

        # add adder outputs
        ps.append([f"add_{i}_out_{j}" for j in range(aw + 1)])
        i += 1

    # connect outputs
    for i, o in enumerate(ps[0]):
        c.add(f"out_{i}", "buf", fanin=o, output=True)

    if not c.fanout("tie0"):
        c.remove("tie0")

    return c
