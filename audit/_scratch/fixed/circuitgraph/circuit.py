"""
Class for circuit graphs.

The Circuit class can be constructed from a generic gate-level Verilog file or
existing graph. Each node in the graph represents a logic gate and has an associated
name and gate type. The supported types are:

- Standard input-order-independent gates:
    ['and', 'nand', 'or', 'nor', 'not', 'buf', 'xor', 'xnor']
- IO and Constant values:
    ['input', '1', '0', 'x']
- Blackbox IO (must be added through `add_blackbox`)
    ['bb_output', 'bb_input']

Additionally, a node can be marked as an output node.

Examples
--------
Create an empty circuit.

>>> import circuitgraph as cg
>>> c = cg.Circuit()

Add circuit inputs

>>> c.add('i0', 'input')
'i0'
>>> c.add('i1', 'input')
'i1'

Add an AND gate named 'g0'.

>>> c.add('g0', 'and')
'g0'

Connect the inputs to the AND gate.

>>> c.connect('i0', 'g0')
>>> c.connect('i1', 'g0')
>>> c.fanin('g0') == {'i0', 'i1'}
True

Or, make connections when adding nodes.

>>> c.add('g1', 'or', fanin=['i0', 'i1'])
'g1'

Nodes can marked as outputs.

>>> c.set_output('g1')
>>> c.add('g2', 'nor', fanin=['g0', 'g1'], output=True)
'g2'
>>> c.outputs() == {'g1', 'g2'}
True

Another way to create the circuit is through a file.

>>> c = cg.from_file('path/to/circuit.v') # doctest: +SKIP

Non-primitve gates can be added using blackboxes. References to blackboxes
are stored in `Circuit` objects and are represented in the circuit graph
through `bb_input` and `bb_output` types. `bb_input` nodes are like buffers:
they can be driven by a single driver. Each `bb_output` must be connected to a
single `buf` node.

>>> c = cg.Circuit()
>>> c.add("i0", "input")
'i0'
>>> c.add("i1", "input")
'i1'
>>> c.add("s", "input")
's'
>>> c.add("o", "buf", output=True)
'o'

Define the blackboxes for a mux.

>>> bb = cg.BlackBox("mux", inputs=["in_0", "in_1", "sel_0"], outputs=["out"])

Add the blackbox to the circuit. Specify how blackbox inputs/outputs connect
to circuit nodes.

>>> c.add_blackbox(bb, "mux_i", {"in_0": "i0", "in_1": "i1", "sel_0": "s", "out": "o"})
>>> set(c.blackboxes)
{'mux_i'}

`bb_input` and `bb_output` nodes get added to the graph and connected.

>>> c.type("mux_i.in_0")
'bb_input'
>>> c.type("mux_i.out")
'bb_output'
>>> c.fanin("mux_i.in_0")
{'i0'}
>>> c.fanout("mux_i.out")
{'o'}

Blackboxes can then be replaced with `Circuit` objects.

>>> m = cg.Circuit("mux")
>>> inputs = [m.add("in_0", "input"), m.add("in_1", "input")]
>>> sels = [m.add("sel_0", "input"), m.add("not_sel_0", "not", fanin="sel_0")]
>>> ands = [
...     m.add("and_0", "and", fanin=[sels[0], inputs[0]]),
...     m.add("and_1", "and", fanin=[sels[1], inputs[1]])
... ]
>>> m.add("out", "or", output=True, fanin=ands)
'out'
>>> c.fill_blackbox("mux_i", m)

Mux nodes get added to the circuit

>>> c.type("mux_i_sel_0")
'buf'
>>> c.type("mux_i_and_0")
'and'
>>> c.fanout("mux_i_out")
{'o'}

Blackboxes can also be used for sequential elements.

>>> flop = BlackBox("flop", ["clk", "d"], ["q"])

Files containing instanations of flops can still be parsed as long as the
instantiations use dot notation for ports, e.g.,
`flop flop_i(.clk(clk), .d(data_in), .q(data_out));`
by passing the blackbox into `from_file`
>>> c = cg.from_file("/path/to/file.v", blackboxes=[flop]) # doctest: +SKIP

"""
from functools import reduce
from itertools import combinations, product

import networkx as nx

primitive_gates = [
    "buf",
    "and",
    "or",
    "xor",
    "not",
    "nand",
    "nor",
    "xnor",
]

addable_types = primitive_gates + [
    "0",
    "1",
    "x",
    "input",
]

supported_types = addable_types + ["bb_input", "bb_output"]


class Circuit:
    """Class for representing circuits."""

    def __init__(self, name=None, graph=None, blackboxes=None):
        """
        Create a new `Circuit`.

        Parameters
        ----------
        name : str
                Name of circuit.
        graph : networkx.DiGraph
                Graph data structure to be used in new instance.
        blackboxes : dict of str:BlackBox
                Record of blackboxes, mapping instsance name to BlackBox type

        """
        if name:
            self.name = name
        else:
            self.name = "circuit"

        if graph:
            self.graph = graph
        else:
            self.graph = nx.DiGraph()

        if blackboxes:
            self.blackboxes = blackboxes
        else:
            self.blackboxes = {}

    def __contains__(self, n):
        """Check if a node is in the circuit."""
        return self.graph.__contains__(n)

    def __len__(self):
        """Count the number of nodes in the circuit."""
        return self.graph.__len__()

    def __iter__(self):
        """Iterate through the nodes in the circuit."""
        return self.graph.__iter__()

    def copy(self):
        """
        Return a copy of the circuit.

        Returns
        -------
        Circuit:
                Copy of the circuit.

        """
        return Circuit(
            graph=self.graph.copy(), name=self.name, blackboxes=self.blackboxes.copy()
        )

    def set_type(self, ns, t):
        """
        Set the type of a node or nodes.

        Parameters
        ----------
        ns : str or iterable of str
                Node.
        t : str
                Type.

        """
        if t not in addable_types:
            raise ValueError(f"unsupported type {t}")

        if isinstance(ns, str):
            ns = [ns]
        for n in ns:
            self.graph.nodes[n]["type"] = t

    def type(self, ns):
        """
        Return node(s) type(s).

        Parameters
        ----------
        ns : str or iterable of str
                Node.

        Returns
        -------
        str or list of str
                Type of node or a list of node types.

        Raises
        ------
        KeyError
                If type of queried node is not defined.

        Examples
        --------
        Create a with several gate types.

        >>> import circuitgraph as cg
        >>> c = cg.Circuit()
        >>> c.add(f'g0', 'xor')
        'g0'
        >>> c.add(f'g1', 'or')
        'g1'
        >>> c.add(f'g2', 'xor')
        'g2'


        Calling `type` for a single gate returns a single type

        >>> c.type('g0')
        'xor'

        Calling `type` on an iterable returns a set of types

        >>> c.type(['g0', 'g1', 'g2'])
        ['xor', 'or', 'xor']

        """
        if isinstance(ns, str):
            if ns in self.graph.nodes:
                try:
                    return self.graph.nodes[ns]["type"]
                except KeyError as e:
                    raise KeyError(f"Node {ns} does not have a type defined.") from e
            else:
                raise KeyError(f"Node {ns} does not exist.")

        return [self.type(n) for n in ns]

    def filter_type(self, types):
        """
        Return circuit nodes filtering by type.

        Parameters
        ----------
        types : str or iterable of str
                Type(s) to filter in.

        Returns
        -------
        set of str
                Nodes

        Examples
        --------
        Create a circuit with several gate types.

        >>> import circuitgraph as cg
        >>> c = cg.Circuit()
        >>> c.add(f'g0', 'xor')
        'g0'
        >>> c.add(f'g1', 'or')
        'g1'
        >>> c.add(f'g2', 'xor')
        'g2'

        Calling `nodes` with no argument returns all nodes in the circuit

        >>> c.nodes() == {'g0', 'g1', 'g2'}
        True

        Passing a node type, we can selectively return nodes.

        >>> c.filter_type('xor') == {'g2', 'g0'}
        True

        """
        if isinstance(types, str):
            types = [types]

        for t in types:
            if t not in supported_types:
                raise ValueError(f"type {t} not supported.")

        return {n for n in self.graph.nodes if self.graph.nodes[n]["type"] in types}

    def add_subcircuit(self, sc, name, connections=None, strip_io=True):
        """
        Add a subcircuit to circuit.

        Parameters
        ----------
        sc : Circuit
                Circuit to add.
        name : str
                Instance name.
        connections : dict of str:str
                Optional connections to make, where the keys are subcircuit
                inputs/outputs and the values are circuit nodes.
        strip_io: bool
                If True, subcircuit inputs will be set to buffers, and subcircuit
                outputs will be marked as non-outputs.

        """
        # check if subcircuit bbs exist
        for bb_name in sc.blackboxes:
            if f"{name}_{bb_name}" in self.blackboxes:
                raise ValueError(f"blackbox {name}_{bb_name} already exists.")

        # check for name overlaps
        mapping = {}
        for n in sc:
            if f"{name}_{n}" in self.graph.nodes:
                raise ValueError(f"name {n} overlaps with {name} subcircuit.")
            mapping[n] = f"{name}_{n}"

        # check connections
        sc_inputs = sc.inputs()
        sc_outputs = sc.outputs()
        if connections:
            for sc_n, ns in connections.items():
                if sc_n not in sc_inputs and sc_n not in sc_outputs:
                    raise ValueError(f"node {sc_n} not in {name} io")

        # add sub circuit
        g = nx.relabel_nodes(sc.graph, mapping)
        self.graph.update(g)
        if strip_io:
            for n in sc.inputs():
                self.set_type(f"{name}_{n}", "buf")
            for n in sc.outputs():
                self.set_output(f"{name}_{n}", False)

        # add blackboxes
        for bb_name, bb in sc.blackboxes.items():
            self.blackboxes[f"{name}_{bb_name}"] = bb

        # make connections
        if connections:
            try:
                for sc_n, ns in connections.items():
                    if sc_n in sc_inputs:
                        self.connect(ns, f"{name}_{sc_n}")
                    elif sc_n in sc_outputs:
                        self.connect(f"{name}_{sc_n}", ns)
            except ValueError:
                # a rejected call must not leave a partial instance behind
                self.remove(mapping.values())
                for bb_name in sc.blackboxes:
                    self.blackboxes.pop(f"{name}_{bb_name}")
                raise

    def add_blackbox(self, blackbox, name, connections=None):
        """
        Add a blackbox instance to circuit.

        Parameters
        ----------
        blackbox : BlackBox
                Blackbox.
        name : str
                Instance name.
        connections : dict of str:str
                Optional connections to make. Mapping from blackbox
                inputs/outputs to circuit nodes.

        """
        # check if exists
        if name in self.blackboxes:
            raise ValueError(f"blackbox {name} already exists.")

        # save info
        self.blackboxes[name] = blackbox

        io = []
        try:
            # make nodes
            for n in blackbox.inputs():
                io += [self.add(f"{name}.{n}", "bb_input")]
            for n in blackbox.outputs():
                io += [self.add(f"{name}.{n}", "bb_output")]

            # make connections
            if connections:
                for bb_n, ns in connections.items():
                    if bb_n in blackbox.inputs():
                        self.connect(ns, f"{name}.{bb_n}")
                    elif bb_n in blackbox.outputs():
                        self.connect(f"{name}.{bb_n}", ns)
                    else:
                        raise ValueError(
                            f"node {bb_n} not defined for blackbox {name}"
                        )
        except ValueError:
            # a rejected call must not leave a partial instance behind
            self.remove(io)
            self.blackboxes.pop(name)
            raise

    def fill_blackbox(self, name, c):
        """
        Replace a blackbox with a circuit.

        Parameters
        ----------
        name : str
                The name of the blackbox to replace.
        c : Circuit
                The circuit.

        """
        # check if bb exists
        if name not in self.blackboxes:
            raise ValueError(f"blackbox {name} does not exist.")

        # check if subcircuit bbs exist
        for bb_name in c.blackboxes:
            if f"{name}_{bb_name}" in self.blackboxes:
                raise ValueError(f"blackbox {name}_{bb_name} already exists.")

        # check that the pins of the instance are still in place
        for n in self.blackboxes[name].inputs():
            if self.graph.nodes.get(f"{name}.{n}", {}).get("type") != "bb_input":
                raise ValueError(f"pin {name}.{n} of blackbox {name} is missing.")
        for n in self.blackboxes[name].outputs():
            if self.graph.nodes.get(f"{name}.{n}", {}).get("type") != "bb_output":
                raise ValueError(f"pin {name}.{n} of blackbox {name} is missing.")

        # check if io match
        if c.inputs() != self.blackboxes[name].inputs():
            raise ValueError(f"circuit inputs do not match {name} blackbox.")
        if c.outputs() != self.blackboxes[name].outputs():
            raise ValueError(f"circuit outputs do not match {name} blackbox.")

        # check for name overlaps
        mapping = {}
        for n in c:
            if f"{name}_{n}" in self.graph.nodes:
                raise ValueError(f"name overlap with {name} blackbox.")
            mapping[n] = f"{name}_{n}"

        # rename blackbox io
        self.relabel({f"{name}.{n}": f"{name}_{n}" for n in self.blackboxes[name].io()})

        # extend circuit
        g = nx.relabel_nodes(c.graph, mapping)
        self.graph.update(g)
        for n in self.blackboxes[name].inputs():
            self.set_type(f"{name}_{n}", "buf")
        for n in self.blackboxes[name].outputs():
            self.set_output(f"{name}_{n}", False)

        # remove blackbox
        self.blackboxes.pop(name)

        # add subcircuit blackboxes
        for bb_name, bb in c.blackboxes.items():
            self.blackboxes[f"{name}_{bb_name}"] = bb

    def nodes(self):
        """
        Return circuit nodes.

        Returns
        -------
        set of str
                Nodes

        """
        return set(self.graph.nodes)

    def edges(self):
        """
        Return circuit edges.

        Returns
        -------
        set of tuple of str, str
                Edges in circuit

        """
        return set(self.graph.edges)

    def add(
        self,
        n,
        node_type,
        fanin=None,
        fanout=None,
        output=False,
        add_connected_nodes=False,
        allow_redefinition=False,
        uid=False,
    ):
        """
        Add a new node to the circuit, optionally connecting it.

        Parameters
        ----------
        n : str
                New node name
        node_type : str
                New node type
        fanin : iterable of str
                Nodes to add to new node's fanin
        fanout : iterable of str
                Nodes to add to new node's fanout
        output: bool
                If True, the node is added as an output
        add_connected_nodes: bool
                If True, nodes in the fanin/fanout will be added to the
                circuit as buffers if not already present. Useful when
                parsing circuits.
        allow_redefinition: bool
                If True, calling add with a node `n` that is already in the circuit
                with `uid` set to False will just update the node type, fanin, fanout,
                and output properties of the node. If False, a ValueError will be
                raised.
        uid: bool
                If True, the node is given a unique name if it already
                exists in the circuit.

        Returns
        -------
        str
                New node name.

        Example
        -------
        Add a single node

        >>> import circuitgraph as cg
        >>> c = cg.Circuit()
        >>> c.add('a', 'or')
        'a'

        In the above example the function returns the name of the new node.
        This allows us to quickly generate an AND tree with the following
        syntax.

        >>> c.add('g', 'and', fanin=[c.add(f'i{i}', 'input') for i in range(4)])
        'g'
        >>> c.fanin('g') == {'i0', 'i1', 'i2', 'i3'}
        True

        """
        # clean arguments
        if uid:
            n = self.uid(n)
        elif n in self and not allow_redefinition:
            raise ValueError(f"Node '{n}' already in circuit")
        if fanin is None:
            fanin = []
        elif isinstance(fanin, str):
            fanin = [fanin]
        if fanout is None:
            fanout = []
        elif isinstance(fanout, str):
            fanout = [fanout]

        if node_type not in supported_types:
            raise ValueError(f"Cannot add unknown type '{node_type}'")

        # raise error for invalid inputs
        if len(fanin) > 1 and node_type in ["buf", "not"]:
            raise ValueError(f"{node_type} cannot have more than one fanin")
        if fanin and node_type in ["0", "1", "x", "input"]:
            raise ValueError(f"{node_type} cannot have fanin")
        if n[0] in "0123456789":
            raise ValueError(f"cannot add node starting with int: {n}")

        # add node
        is_new = n not in self.graph
        self.graph.add_node(n, type=node_type, output=output)

        # connect
        if add_connected_nodes:
            for f in fanin + fanout:
                if f not in self:
                    self.add(f, "buf")
        try:
            self.connect(n, fanout)
            self.connect(fanin, n)
        except ValueError:
            # a rejected call must not leave a half-connected node behind
            if is_new:
                self.graph.remove_node(n)
            raise

        return n

    def remove(self, ns):
        """
        Remove node(s).

        Parameters
        ----------
        ns : str or iterable of str
                Node(s) to remove.

        """
        if isinstance(ns, str):
            ns = [ns]
        self.graph.remove_nodes_from(ns)

    def relabel(self, mapping):
        """
        Rename nodes of a circuit in place.

        Parameters
        ----------
        mapping : dict of str:str
                mapping of old to new names

        """
        nx.relabel_nodes(self.graph, mapping, copy=False)

    def connect(self, us, vs):
        """
        Add connections to the graph.

        Parameters
        ----------
        us : str or iterable of str
                Head node(s)
        vs : str or iterable of str
                Tail node(s)

        """
        # clean
        if not us or not vs:
            return

        if isinstance(us, str):
            us = [us]
        if isinstance(vs, str):
            vs = [vs]

        # check existence
        for n in us:
            if n not in self.graph:
                raise ValueError(f"node '{n}' does not exist.")
        for n in vs:
            if n not in self.graph:
                raise ValueError(f"node '{n}' does not exist.")

        # check for illegal connections
        for v in vs:
            t = self.type(v)
            if t in ["input", "0", "1", "x", "bb_output"]:
                raise ValueError(f"cannot connect to {t} '{v}'")
            if t in ["bb_input", "buf", "not"]:
                if len(self.fanin(v)) + len(us) > 1:
                    raise ValueError(f"fanin of {t} '{v}' cannot be greater than 1.")
        for u in us:
            t = self.type(u)
            if t in ["bb_input"]:
                raise ValueError(f"cannot connect from {t} '{u}'.")
            if t in ["bb_output"]:
                for v in vs:
                    if self.type(v) != "buf":
                        raise ValueError(
                            f"cannot connect from {t} '{u}' to non-buf '{v}'"
                        )
                if len(self.fanout(u)) + len(vs) > 1:
                    raise ValueError(f"fanout of {t} '{u}' cannot be greater than 1.")

        # connect
        self.graph.add_edges_from((u, v) for u in us for v in vs)

    def disconnect(self, us, vs):
        """
        Remove connections to the graph.

        Parameters
        ----------
        us : str or iterable of str
                Head node(s)
        vs : str or iterable of str
                Tail node(s)

        """
        if isinstance(us, str):
            us = [us]
        if isinstance(vs, str):
            vs = [vs]
        self.graph.remove_edges_from((u, v) for u in us for v in vs)

    def fanin(self, ns):
        """
        Compute the fanin of a node.

        Parameters
        ----------
        ns : str or iterable of str
                Node(s) to compute fanin for.

        Returns
        -------
        set of str
                Nodes in fanin.

        Example
        -------
        >>> import circuitgraph as cg
        >>> c = cg.from_lib("c17")
        >>> c.fanin('N23') == {'N16', 'N19'}
        True
        >>> c.fanin(['N10','N19']) == {'N1', 'N3', 'N7', 'N11'}
        True

        """
        gates = set()
        if isinstance(ns, str):
            ns = [ns]
        for n in ns:
            gates |= set(self.graph.predecessors(n))
        return gates

    def fanout(self, ns):
        """
        Compute the fanout of a node.

        Parameters
        ----------
        ns : str or iterable of str
                Node(s) to compute fanout for.

        Returns
        -------
        set of str
                Nodes in fanout.

        """
        gates = set()
        if isinstance(ns, str):
            ns = [ns]
        for n in ns:
            gates |= set(self.graph.successors(n))
        return gates

    def transitive_fanin(self, ns):
        """
        Compute the transitive fanin of a node.

        Parameters
        ----------
        ns : str or iterable of str
                Node(s) to compute transitive fanin for.

        Returns
        -------
        set of str
                Nodes in transitive fanin.

        """
        if isinstance(ns, str):
            ns = [ns]
        gates = set()
        for n in ns:
            gates |= nx.ancestors(self.graph, n)
        return gates

    def transitive_fanout(self, ns):
        """
        Compute the transitive fanout of a node.

        Parameters
        ----------
        ns : str or iterable of str
                Node(s) to compute transitive fanout for.

        Returns
        -------
        set of str
                Nodes in transitive fanout.

        """
        if isinstance(ns, str):
            ns = [ns]
        gates = set()
        for n in ns:
            gates |= nx.descendants(self.graph, n)
        return gates

    def fanout_depth(self, ns, maximum=True):
        """
        Compute the combinational fanout depth of a node(s).

        Parameters
        ----------
        ns : str or iterable of str
                Node(s) to compute depth for.
        maximum: bool
                If True, the maximum depth will be found. If False, the minimum depth
                will be found.

        Returns
        -------
        int
                Depth.

        """

        def visit_node(n, visited, reachable, depth):
            if n in visited:
                visited[n] = (
                    max(visited[n], depth) if maximum else min(visited[n], depth)
                )
            else:
                visited[n] = depth

            # check if all reachable fanin has been visited
            if all(fi in visited for fi in self.fanin(n) & reachable):
                for fo in self.fanout(n):
                    visited = visit_node(fo, visited, reachable, visited[n] + 1)
            return visited

        # is acyclic
        if self.is_cyclic():
            raise ValueError("Cannot compute depth of cyclic circuit")

        depth = 0

        # find reachable group and init visited
        reachable = self.transitive_fanout(ns)

        # set up visited
        if isinstance(ns, str):
            visited = {ns: depth}
        else:
            visited = {n: depth for n in ns}

        # recurse
        for f in self.fanout(ns):
            visited = visit_node(f, visited, reachable, depth + 1)

        return max(visited.values()) if maximum else min(visited.values())

    def fanin_depth(self, ns, maximum=True):
        """
        Compute the combinational fanin depth of a node(s).

        Parameters
        ----------
        ns : str or iterable of str
                Node(s) to compute depth for.
        maximum: bool
                If True, the maximum depth will be found. If False, the minimum depth
                will be found.

        Returns
        -------
        int
                Depth.

        """

        def visit_node(n, visited, reachable, depth):
            if n in visited:
                visited[n] = (
                    max(visited[n], depth) if maximum else min(visited[n], depth)
                )
            else:
                visited[n] = depth

            # check if all reachable fanin has been visited
            if all(fo in visited for fo in self.fanout(n) & reachable):
                for fi in self.fanin(n):
                    visited = visit_node(fi, visited, reachable, visited[n] + 1)
            return visited

        # is acyclic
        if self.is_cyclic():
            raise ValueError("Cannot compute depth of cyclic circuit")

        depth = 0

        # find reachable group and init visited
        reachable = self.transitive_fanin(ns)

        # set up visited
        if isinstance(ns, str):
            visited = {ns: depth}
        else:
            visited = {n: depth for n in ns}

        # recurse
        for f in self.fanin(ns):
            visited = visit_node(f, visited, reachable, depth + 1)

        return max(visited.values()) if maximum else min(visited.values())

    def paths(self, source, target, cutoff=None):
        """
        Get the paths from node u to node v.

        Parameters
        ----------
        source: str
                Source node.
        target: str
                Target node.
        cutoff: int
                Depth to stop search at

        Returns
        -------
        generator of list of str
                The paths from source to target.

        """
        return nx.all_simple_paths(self.graph, source, target, cutoff=cutoff)

    def inputs(self):
        """
        Return the circuit's inputs.

        Returns
        -------
        set of str
                Input nodes in circuit.

        """
        return self.filter_type("input")

    def is_output(self, node):
        """
        Return True if a node is an output.

        Parameters
        ----------
        ns : str
                Node.

        Returns
        -------
        bool
                Wheter or not the node is an output

        Raises
        ------
        KeyError
                If node is not in circuit.

        """
        if node in self.graph.nodes:
            try:
                return self.graph.nodes[node]["output"]
            except KeyError:
                return False
        else:
            raise KeyError(f"Node {node} does not exist.")

    def set_output(self, ns, output=True):
        """
        Set a node or nodes as an output or not an output.

        Parameters
        ----------
        node: str
                Node.
        output: bool
                Whether or not node is an output

        """
        if isinstance(ns, str):
            ns = [ns]
        for n in ns:
            self.graph.nodes[n]["output"] = output

    def outputs(self):
        """
        Return the circuit's outputs.

        Returns
        -------
        set of str
                Output nodes in circuit.

        """
        return {n for n in self.graph.nodes if self.is_output(n)}

    def io(self):
        """
        Return the circuit's io.

        Returns
        -------
        set of str
                Output and input nodes in circuit.

        """
        return self.inputs() | self.outputs()

    def startpoints(self, ns=None):
        """
        Compute the startpoints of a node, nodes, or circuit.

        Parameters
        ----------
        ns : str or iterable of str
                Node(s) to compute startpoints for.

        Returns
        -------
        set of str
                Startpoints of ns.

        """
        if isinstance(ns, str):
            ns = [ns]

        if ns:
            return (set(ns) | self.transitive_fanin(ns)) & self.startpoints()
        return self.inputs() | self.filter_type("bb_output")

    def endpoints(self, ns=None):
        """
        Compute the endpoints of a node, nodes, or circuit.

        Parameters
        ----------
        ns : str or iterable of str
                Node(s) to compute endpoints for.

        Returns
        -------
        set of str
                Endpoints of ns.

        """
        if isinstance(ns, str):
            ns = [ns]

        if ns:
            return (set(ns) | self.transitive_fanout(ns)) & self.endpoints()
        return self.outputs() | self.filter_type("bb_input")

    def reconvergent_fanout_nodes(self):
        """
        Get nodes that have fanout that reconverges.

        Returns
        -------
        generator of str
                A generator of nodes that have reconvergent fanout

        """
        for node in self.nodes():
            fo = self.fanout(node)
            if len(fo) > 1:
                for a, b in combinations(fo, 2):
                    if ({a} | self.transitive_fanout(a)) & (
                        {b} | self.transitive_fanout(b)
                    ):
                        yield node
                        break

    def has_reconvergent_fanout(self):
        """
        Check if a circuit has any reconvergent fanout present.

        Returns
        -------
        bool
            Whether or not reconvergent fanout is present

        """
        try:
            next(self.reconvergent_fanout_nodes())
            return True
        except StopIteration:
            return False

    def is_cyclic(self):
        """
        Check for combinational loops in circuit.

        Returns
        -------
        bool
                Existence of cycle

        """
        return not nx.is_directed_acyclic_graph(self.graph)

    def uid(self, n, blocked=None):
        """
        Generate a unique net name based on `n`.

        Parameters
        ----------
        n : str
                Name to uniquify
        blocked : set of str
                Addtional names to block

        Returns
        -------
        str
                Unique name

        """
        if blocked is None:
            blocked = []

        if n not in self.graph and n not in blocked:
            return n
        i = 0
        while f"{n}_{i}" in self.graph or f"{n}_{i}" in blocked:
            if i < 10:
                i += 1
            else:
                i *= 7
        return f"{n}_{i}"

    def kcuts(self, n, k, computed=None):
        """
        Generate k-cuts.

        Parameters
        ----------
        n : str
                Node to compute cuts for.
        k : int
                Maximum cut width.

        Returns
        -------
        iter of str
                k-cuts.

        """
        if computed is None:
            computed = {}

        if n in computed:
            return computed[n]

        # helper function
        def merge_cut_sets(a_cuts, b_cuts):
            merged_cuts = []
            for a_cut, b_cut in product(a_cuts, b_cuts):
                merged_cut = a_cut | b_cut
                if len(merged_cut) <= k:
                    merged_cuts.append(merged_cut)
            return merged_cuts

        if self.fanin(n):
            fanin_cut_sets = [self.kcuts(f, k, computed) for f in self.fanin(n)]
            cuts = reduce(merge_cut_sets, fanin_cut_sets) + [{n}]
        else:
            cuts = [{n}]

        # add cuts
        computed[n] = cuts
        return cuts

    def topo_sort(self):
        """
        Return a generator of nodes in topologically sorted order.

        Returns
        -------
        iter of str
                Ordered node names.

        """
        return nx.topological_sort(self.graph)

    def remove_unloaded(self, inputs=False):
        """
        Remove nodes with no load until fixed point.

        Parameters
        ----------
        inputs : bool
                If True, unloaded inputs will be removed too.

        Returns
        -------
        iter of str
                Removed nodes.

        """
        unloaded = [
            n
            for n in self.graph
            if self.type(n) not in ["bb_input"]
            and (inputs or self.type(n) not in ["input", "bb_output"])
            and not self.is_output(n)
            and not self.fanout(n)
        ]
        removed = []
        while unloaded:
            n = unloaded.pop()
            for fi in self.fanin(n):
                if not inputs and self.type(fi) in ["input", "bb_output"]:
                    continue
                if not self.is_output(fi) and len(self.fanout(fi)) == 1:
                    unloaded.append(fi)
            self.remove(n)
            removed.append(n)
        return removed


class BlackBox:
    """
    Class for representing blackboxes.

    Blackboxes can be used to represent arbitrary sub-modules such as
    sequential elements. `Circuit` objects hold references to all added
    `BlackBox` objects. They connect with the rest of the circuit as
    nodes with `bb_input` and `bb_output` types. These are the ports to
    the blackbox. `bb_input` nodes are like `buf` types: they can be
    driven by a single driver. Each `bb_output` node must be connected
    to a single `buf` node.

    """

    def __init__(self, name=None, inputs=None, outputs=None):
        """
        Create a new `BlackBox`.

        Parameters
        ----------
        name : str
                Name of blackbox.
        inputs : seq of str
                Blackbox inputs.
        outputs : seq of str
                Blackbox outputs.

        Examples
        --------
        Define a BlackBox for a flop

        >>> import circuitgraph as cg
        >>> dff = cg.BlackBox("dff", ["D", "CK"], ["Q"])

        This corresponds to a verilog module with the header:
        `module dff(input D, input CK, output Q);`

        Create an example circuit

        >>> c = cg.Circuit()
        >>> c.add("i0", "input")
        'i0'
        >>> c.add("i1", "input")
        'i1'
        >>> c.add("a", "and", fanin=["i0", "i1"])
        'a'
        >>> c.add("clock", "input")
        'clock'
        >>> c.add("data_out", "buf", output=True)
        'data_out'

        Add the BlackBox to a circuit

        >>> c.add_blackbox(dff, "dff0", {"D": "a", "CK": "clock", "Q": "data_out"})

        This corresnponds to instantiating the verilog module as such:
        `dff dff0(.D(a), .CK(clock), .Q(data_out));`

        This will add the bb_input nodes `dff0.D` and `dff0.CK`, driven by `a` and
        `clock`, and bb_output node `dff0.Q`, which drives `data_out`.

        """
        self.name = name
        self.input_set = set(inputs)
        self.output_set = set(outputs)

    def inputs(self):
        """
        Return the blackbox's inputs.

        Returns
        -------
        set of str
                Input nodes in blackbox.

        """
        return self.input_set

    def outputs(self):
        """
        Return the blackbox's outputs.

        Returns
        -------
        set of str
                Output nodes in blackbox.

        """
        return self.output_set

    def io(self):
        """
        Return the blackbox's inputs and outputs.

        Returns
        -------
        set of str
                IO nodes in blackbox.

        """
        return self.output_set | self.input_set
