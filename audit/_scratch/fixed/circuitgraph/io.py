"""Functions for reading/writing CircuitGraphs."""
import re
from pathlib import Path

from circuitgraph import BlackBox, Circuit
from circuitgraph.parsing import fast_parse_verilog_netlist, parse_verilog_netlist

generic_flop = BlackBox("ff", ["clk", "d"], ["q"])

genus_flops = [
    BlackBox("flopd", ["CK", "D"], ["Q"]),
    BlackBox("fflopd", ["CK", "D"], ["Q"]),
    BlackBox("flopdrs", ["CK", "D", "R", "S"], ["Q"]),
    BlackBox("fflopdrs", ["CK", "D", "R", "S"], ["Q"]),
]


dc_flops = [
    BlackBox("GTECH_FD1", ["CP", "D"], ["Q", "QN"]),
    BlackBox("GTECH_FD2", ["CP", "CD", "D"], ["Q", "QN"]),
    BlackBox("GTECH_FD3", ["CP", "CD", "SD", "D"], ["Q", "QN"]),
]


def from_file(
    path,
    name=None,
    fmt=None,
    blackboxes=None,
    warnings=False,
    error_on_warning=False,
    fast=False,
):
    """
    Create a new `Circuit` from a verilog file.

    Parameters
    ----------
    path: str or pathlib.Path
            the path to the file to read from.
    name: str
            the name of the module to read if different from the filename.
    fmt: str
            the format of the file to be read, overrides the extension.
    blackboxes: seq of BlackBox
            sub circuits in the circuit to be parsed.
    warnings: bool
            If True, warnings about unused nets will be printed.
    error_on_warning: bool
            If True, unused nets will cause raise `VerilogParsingWarning`
            exceptions.
    fast: bool
            If True, uses the `fast_parse_verilog_netlist` function from
            parsing/fast_verilog.py. This function is faster for parsing
            very large netlists, but makes stringent assumptions about
            the netlist and does not provide error checking. Read
            the docstring for `fast_parse_verilog_netlist` in order to
            confirm that `netlist` adheres to these assumptions before
            using this flag.

    Returns
    -------
    Circuit
            the parsed circuit.

    """
    path = Path(path)
    infer_module_name = False
    if name is None:
        infer_module_name = True
        name = path.stem
    with open(path) as f:
        netlist = f.read()
    if fmt == "verilog" or path.suffix == ".v":
        return verilog_to_circuit(
            netlist,
            name,
            infer_module_name,
            blackboxes,
            warnings,
            error_on_warning,
            fast,
        )
    if fmt == "bench" or path.suffix == ".bench":
        return bench_to_circuit(netlist, name)
    raise ValueError(f"extension {path.suffix} not supported")


def from_lib(name):
    """
    Create a new `Circuit` from a netlist in the `netlists` folder.

    Parameters
    ----------
    name: the name of the circuit.

    Returns
    -------
    Circuit
            the parsed circuit.

    """
    bbs = [BlackBox("ff", ["CK", "D"], ["Q"])] + genus_flops + dc_flops
    [path] = Path(__file__).parent.absolute().glob(f"netlists/{name}.*")
    return from_file(path, name, blackboxes=bbs)


def bench_to_circuit(netlist, name):
    """
    Create a new Circuit from a netlist string.

    Parameters
    ----------
    netlist: str
            netlist code.
    name: str
            the module name.

    Returns
    -------
    Circuit
            the parsed circuit.

    """
    # create circuit
    c = Circuit(name=name)

    dff = BlackBox("dff", ["D"], ["Q"])

    # identifiers: like simple Verilog identifiers (a leading underscore and '$' are
    # allowed); `start` keeps a match from beginning in the middle of a name
    ident = r"[a-zA-Z_][a-zA-Z\d_$]*"
    start = r"(?<![a-zA-Z\d_$])"

    # get inputs
    in_regex = rf"(?:INPUT|input)\s*\(\s*({ident})\s*\)"
    for net_str in re.findall(in_regex, netlist, re.DOTALL):
        nets = net_str.replace(" ", "").replace("\n", "").replace("\t", "").split(",")
        for n in nets:
            c.add(n, "input")

    # handle gates
    gate_types = ["buf", "buff", "not", "or", "nor", "and", "nand", "xor", "xnor"]
    gate_types = "|".join(gate_types + [s.upper() for s in gate_types])
    regex = rf"{start}({ident})\s*=\s*({gate_types})\(([^\)]+)\)"
    for net, gate, input_str in re.findall(regex, netlist):
        # parse all nets
        # all white space (also the carriage return of a CRLF line break inside a
        # wrapped operand list) is insignificant
        inputs = "".join(input_str.split()).split(",")
        if gate in ("buff", "BUFF"):
            gate = "buf"
        c.add(
            net,
            gate.lower(),
            fanin=inputs,
            add_connected_nodes=True,
            allow_redefinition=True,
        )

    regex = rf"{start}({ident})\s*=\s*(DFF|dff)\(([^\)]+)\)"
    dffs = re.findall(regex, netlist)
    # add all flop output nets first so that flops can feed each other in any order
    for net, gate, input_str in dffs:
        c.add(net, "buf", allow_redefinition=True)
    for net, gate, input_str in dffs:
        # parse all nets
        inputs = "".join(input_str.split())
        c.add_blackbox(dff, f"{net}_dff", connections={"D": inputs, "Q": net})

    # get outputs
    in_regex = rf"(?:OUTPUT|output)\s*\(\s*({ident})\s*\)"
    for net_str in re.findall(in_regex, netlist, re.DOTALL):
        nets = net_str.replace(" ", "").replace("\n", "").replace("\t", "").split(",")
        for n in nets:
            c.set_output(n)

    return c


def verilog_to_circuit(
    netlist,
    name,
    infer_module_name=False,
    blackboxes=None,
    warnings=False,
    error_on_warning=False,
    fast=False,
):
    """
    Create a new Circuit from a module inside Verilog code.

    Parameters
    ----------
    netlist: str
            Verilog code.
    name: str
            Module name.
    infer_module_name: bool
            If True and no module named `name` is found, parse the first
            module in the netlist.
    blackboxes: seq of BlackBox
            Blackboxes in module.
    warnings: bool
            If True, warnings about unused nets will be printed.
    error_on_warning: bool
            If True, unused nets will cause raise `VerilogParsingWarning`
            exceptions.
    fast: bool
            If True, uses the `fast_parse_verilog_netlist` function from
            parsing/fast_verilog.py. This function is faster for parsing
            very large netlists, but makes stringent assumptions about
            the netlist and does not provide error checking. Read
            the docstring for `fast_parse_verilog_netlist` in order to
            confirm that `netlist` adheres to these assumptions before
            using this flag.

    Returns
    -------
    Circuit
            Parsed circuit.

    """
    if blackboxes is None:
        blackboxes = []

    if fast:
        return fast_parse_verilog_netlist(netlist, blackboxes)

    # parse module
    regex = rf"(module\s+{re.escape(name)}\s*\(.*?\);(.*?)(?<![\w$])endmodule(?![\w$]))"
    m = re.search(regex, netlist, re.DOTALL)
    try:
        module = m.group(1)
    except AttributeError as e1:
        if infer_module_name:
            regex = r"(module\s+(.*?)\s*\(.*?\);(.*?)(?<![\w$])endmodule(?![\w$]))"
            m = re.search(regex, netlist, re.DOTALL)
            try:
                module = m.group(1)
            except AttributeError as e2:
                raise ValueError("Could not read netlist: no modules found") from e2
        else:
            raise ValueError(f"Could not read netlist: {name} module not found") from e1

    return parse_verilog_netlist(module, blackboxes, warnings, error_on_warning)


def to_file(c, path, fmt="verilog", behavioral=False):
    """
    Write a `Circuit` to a Verilog file.

    Parameters
    ----------
    c: Circut
            the circuit
    path: str
            the path to the file to read from.
    fmt: str
            the format of the file (verilog or bench)

    """
    with open(path, "w") as f:
        if fmt == "verilog":
            f.write(circuit_to_verilog(c, behavioral=behavioral))
        elif fmt == "bench":
            f.write(circuit_to_bench(c))
        else:
            raise ValueError(f"Unrecognized fmt: {fmt}")


def circuit_to_verilog(c, behavioral=False):
    """
    Generate a `str` of Verilog code from a `CircuitGraph`.

    Parameters
    ----------
    c: Circuit
            the circuit to turn into Verilog.
    behavioral: bool
            if True, use assign statements instead of primitive gates.

    Returns
    -------
    str
        Verilog code.

    """
    c = Circuit(graph=c.graph.copy(), name=c.name, blackboxes=c.blackboxes.copy())
    # sanitize escaped nets
    for node in c.nodes():
        if node.startswith("\\"):
            c.relabel({node: node + " "})

    inputs = list(c.inputs())
    outputs = list(c.outputs())
    insts = []
    wires = []

    # blackboxes
    for name, bb in c.blackboxes.items():
        io = []
        for n in bb.inputs():
            try:
                driver = c.fanin(f"{name}.{n}").pop()
                io += [f".{n}({driver})"]
            except KeyError:
                io += [f".{n}()"]

        for n in bb.outputs():
            try:
                driven = c.fanout(f"{name}.{n}").pop()
                # Disconnect so no buffer is created
                c.disconnect(f"{name}.{n}", driven)
                io += [f".{n}({driven})"]
            except KeyError:
                io += [f".{n}()"]

        io_def = ", ".join(io)
        insts.append(f"{bb.name} {name} ({io_def})")

    # gates
    for n in c.nodes():
        if c.type(n) in ["xor", "xnor", "buf", "not", "nor", "or", "and", "nand"]:
            wires.append(n)
            fanin = list(c.fanin(n))
            if not fanin:
                continue
            if behavioral:
                if c.type(n) == "buf":
                    insts.append(f"assign {n} = {fanin[0]}")
                elif c.type(n) == "not":
                    insts.append(f"assign {n} = ~{fanin[0]}")
                else:
                    if c.type(n) in ["xor", "xnor"]:
                        symbol = "^"
                    elif c.type(n) in ["and", "nand"]:
                        symbol = "&"
                    elif c.type(n) in ["nor", "or"]:
                        symbol = "|"
                    fanin = f" {symbol} ".join(fanin)
                    if c.type(n) in ["xnor", "nor", "nand"]:
                        insts.append(f"assign {n} = ~({fanin})")
                    else:
                        insts.append(f"assign {n} = {fanin}")
            else:
                fanin = ", ".join(fanin)
                gate_name = c.uid(f"g_{len(insts)}")
                insts.append(f"{c.type(n)} {gate_name}({n}, {fanin})")
        elif c.type(n) in ["0", "1", "x"]:
            insts.append(f"assign {n} = 1'b{c.type(n)}")
            wires.append(n)
        elif c.type(n) in ["input", "bb_input", "bb_output"]:
            pass
        else:
            raise ValueError(f"unknown gate type: {c.type(n)}")

    verilog = f"module {c.name} ("
    verilog += ", ".join(inputs + outputs)
    verilog += ");\n"
    verilog += "".join(f"  input {inp};\n" for inp in inputs)
    verilog += "\n"
    verilog += "".join(f"  output {out};\n" for out in outputs)
    verilog += "\n"
    verilog += "".join(f"  wire {wire};\n" for wire in wires)
    verilog += "\n"
    verilog += "".join(f"  {inst};\n" for inst in insts)
    verilog += "endmodule\n"

    return verilog


def circuit_to_bench(c):
    """
    Generate a `str` of Bench code from a `CircuitGraph`.

    Parameters
    ----------
    c: Circuit
            the circuit to turn into Bench.

    Returns
    -------
    str
        Bench code.

    """
    insts = []

    if c.blackboxes:
        raise ValueError(f"Bench format does not support blackboxes: {c.name}")

    # gates
    # constants are built from an input and its complement (a gate listing the
    # same net twice is read back as a single-input gate)
    const_inp = c.inputs().pop()
    const_inp_n = c.uid(f"{const_inp}_not")
    if c.filter_type(["0", "1"]):
        insts.append(f"{const_inp_n} = NOT({const_inp})")
    for n in c.nodes() - c.inputs():
        if c.type(n) in ["xor", "xnor", "buf", "not", "nor", "or", "and", "nand"]:
            fanin = ", ".join(c.fanin(n))
            insts.append(f"{n} = {c.type(n).upper()}({fanin})")
        elif c.type(n) in ["0"]:
            insts.append(f"{n} = AND({const_inp}, {const_inp_n})")
        elif c.type(n) in ["1"]:
            insts.append(f"{n} = OR({const_inp}, {const_inp_n})")
        else:
            raise ValueError(f"unknown gate type: {c.type(n)}")

    bench = f"# {c.name}\n"
    bench += "".join(f"INPUT({inp})\n" for inp in c.inputs())
    bench += "\n"
    bench += "".join(f"OUTPUT({out})\n" for out in c.outputs())
    bench += "\n"
    bench += "\n".join(insts)

    return bench
