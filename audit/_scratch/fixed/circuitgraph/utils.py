"""
Various circuit related utilities.

Examples
--------
Lint a circuit to check for unloaded nets

>>> import circuitgraph as cg
>>> c = cg.from_lib("c17")
>>> c.set_output("N22", False)
>>> cg.lint(c)

"""
import shutil
import subprocess
from pathlib import Path
from tempfile import NamedTemporaryFile

from circuitgraph.circuit import supported_types
from circuitgraph.io import circuit_to_verilog


def visualize(c, output_file, suppress_output=True):
    """
    Visualize a circuit using Yosys.

    Parameters
    ----------
    c: Circuit
            Circuit to visualize.
    output_file: str
            Where to write the image to.
    suppress_output: bool
            If True, yosys stdout will not be printed.

    """
    if shutil.which("yosys") is None:
        raise OSError("Install 'yosys' to use 'cg.visualize'")

    verilog = circuit_to_verilog(c)
    output_file = Path(output_file)
    fmt = output_file.suffix[1:]
    prefix = output_file.with_suffix("")
    if suppress_output:
        stdout = subprocess.DEVNULL
    else:
        stdout = None
    with NamedTemporaryFile(
        prefix="circuitgraph_synthesis_input", suffix=".v"
    ) as tmp_in:
        tmp_in.write(bytes(verilog, "ascii"))
        tmp_in.flush()

        # Write dummy modules for blackboxes to show port directions
        for bb in set(c.blackboxes.values()):
            bb_verilog = (
                f"\n\nmodule {bb.name} ({','.join(bb.inputs() | bb.outputs())});\n"
            )
            for i in bb.inputs():
                bb_verilog += f"  input {i};\n"
            for o in bb.outputs():
                bb_verilog += f"  output {o};\n"
            bb_verilog += "endmodule\n"
            tmp_in.write(bytes(bb_verilog, "ascii"))
            tmp_in.flush()

        cmd = [
            "yosys",
            "-p",
            f"read_verilog {tmp_in.name}; "
            f"show -stretch -format {fmt} -prefix {prefix} {c.name}",
        ]
        subprocess.run(cmd, stdout=stdout, check=True)

    # Remove intermediate dot files if necessary
    if fmt != "dot":
        prefix.with_suffix(".dot").unlink()


def clog2(num):
    r"""
    Return the ceiling log base two of an integer :math:`\ge 1`.

    Gives minimum dimension of a Boolean space with at least N points.

    Examples
    --------
    Here are the values of ``clog2(N)`` for :math:`1 \le N < 18`:
    >>> [clog2(n) for n in range(1, 18)]
    [0, 1, 2, 2, 3, 3, 3, 3, 4, 4, 4, 4, 4, 4, 4, 4, 5]

    This function is undefined for non-positive integers:
    >>> clog2(0)
    Traceback (most recent call last):
        ...
    ValueError: expected num >= 1

    """
    if num < 1:
        raise ValueError("expected num >= 1")
    accum, shifter = 0, 1
    while num > shifter:
        shifter <<= 1
        accum += 1
    return accum


def int_to_bin(i, w, lend=False):
    """
    Convert integer to binary tuple.

    Parameters
    ----------
    i : int
            Integer to convert.
    w : int
            Width of conversion
    lend : bool
            Endianness of returned tuple, helpful for iterating.

    Returns
    -------
    tuple of bool
            Binary tuple.

    """
    if lend:
        return tuple(reversed(tuple(v == "1" for v in bin(i)[2:].zfill(w))))
    return tuple(v == "1" for v in bin(i)[2:].zfill(w))


def bin_to_int(b, lend=False):
    """
    Convert binary number to integer.

    Parameters
    ----------
    b : tuple of bool
            Binary tuple.
    lend : bool
            Endianness of tuple.

    Returns
    -------
    int
            Value as integer.

    """
    if not lend:
        s = "".join("1" if v else "0" for v in b)
    else:
        s = "".join("1" if v else "0" for v in reversed(b))

    return int(s, 2)


def lint(c, fail_fast=True, unloaded=False, undriven=True, single_input_gates=False):
    """
    Raise ValueError if circuit has invalid connections or types.

    Parameters
    ----------
    c: Circuit
            The Circuit to lint.
    fail_fast: bool
            Exit after the first error.
    unloaded: bool
            Fail on unloaded node.
    undriven: bool
            Fail on undriven node.
    single_input_gates: bool
            Fail on multi-input gates with only a single input.

    """
    errors = []

    def handle(s):
        if fail_fast:
            raise ValueError(s)
        errors.append(s)

    zero_input_types = ["input", "0", "1", "x", "bb_output"]
    single_input_types = ["buf", "not", "bb_input"]
    multi_input_types = ["and", "nand", "or", "nor", "xor", "xnor"]
    for g in c.nodes():
        # check types
        if "type" not in c.graph.nodes[g]:
            handle(f"no type for node '{g}'")
            continue
        t = c.graph.nodes[g]["type"]
        if t not in supported_types:
            handle(f"node '{g}' has unsupported type '{t}'")
        if "." in g and g.split(".")[0] not in c.blackboxes:
            handle(f"node '{g}' has blackbox syntax with no instance")

        # input/constant drivers
        if c.type(g) in zero_input_types and len(c.fanin(g)) > 0:
            handle(f"'{c.type(g)}' node '{g}' has fanin")

        # black-box output fanout
        if c.type(g) == "bb_output":
            if len(c.fanout(g)) > 1:
                handle(f"'{c.type(g)}' node '{g}' has fanout greater than 1")
            if c.fanout(g) and c.graph.nodes[c.fanout(g).pop()].get("type") != "buf":
                handle(f"'{c.type(g)}' node '{g}' has non-buf fanout")

        # multiple drivers
        if c.type(g) in single_input_types and len(c.fanin(g)) > 1:
            handle(f"'{c.type(g)}' node '{g}' has fanin count > 1")

        # no drivers
        if (
            undriven
            and c.type(g) in single_input_types + multi_input_types
            and len(c.fanin(g)) < 1
        ):
            handle(f"'{c.type(g)}' node '{g}' has no fanin")

        # single drivers
        if (
            single_input_gates
            and c.type(g) in multi_input_types
            and len(c.fanin(g)) < 2
        ):
            handle(f"'{c.type(g)}' node '{g}' has fanin less than 2")

        # unloaded
        if unloaded and not c.is_output(g) and not c.fanout(g):
            handle(f"'{c.type(g)}' node '{g}' has no fanout")

    # blackboxes
    for name, bb in c.blackboxes.items():
        for g in bb.inputs():
            if f"{name}.{g}" not in c.graph.nodes:
                handle(f"missing blackbox pin '{name}.{g}'")
            else:
                t = c.graph.nodes[f"{name}.{g}"].get("type")
                if t != "bb_input":
                    handle(f"blackbox pin '{name}.{g}' has incorrect type '{t}'")

        for g in bb.outputs():
            if f"{name}.{g}" not in c.graph.nodes:
                handle(f"missing blackbox pin '{name}.{g}'")
            else:
                t = c.graph.nodes[f"{name}.{g}"].get("type")
                if t != "bb_output":
                    handle(f"blackbox pin '{name}.{g}' has incorrect type '{t}'")

    if errors:
        msg = "f{len(errors}} total errors.\n"
        if len(errors) > 10:
            msg += "\n".join(errors[:10])
            msg += f"\nplus {len(errors) - 10} other errors..."
        else:
            msg += "\n".join(errors)
        raise ValueError(msg)
