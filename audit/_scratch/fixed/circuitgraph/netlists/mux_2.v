module mux_2(in_0,in_1,out,sel);
  input in_0,in_1;
  input sel;
  output out;
  wire in_0,in_1;
  wire sel,sel_b;
  wire n_0,n_1;
  wire out;
  or OR (out, n_0, n_1);
  and AND0 (n_0, in_0, sel_b);
  and AND1 (n_1, in_1, sel);
  not NOT0 (sel_b, sel);
endmodule
