module c17_gates(G1,G16,G17,G2,G3,G4,G5);
input G1,G2,G3,G4,G5;
output G16,G17;

  wire G8,G9,G12,G15;

  nand NAND2_0(G8,G1,G3);
  nand NAND2_1(G9,G3,G4);
  nand NAND2_2(G12,G2,G9);
  nand NAND2_3(G15,G9,G5);
  nand NAND2_4(G16,G8,G12);
  nand NAND2_5(G17,G12,G15);

endmodule

