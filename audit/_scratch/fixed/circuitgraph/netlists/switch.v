module switch(in_0,in_1,out_0,out_1,key);
  input in_0,in_1;
  input key;
  output out_0,out_1;
  wire in_0,in_1;
  wire key;
  wire out_0,out_1;
  wire k_b,n_0,n_1,n_2,n_3;
  not NOT (k_b, key);
  or OR_0 (out_0, n_0, n_1);
  and AND0_0 (n_0, in_0, k_b);
  and AND1_0 (n_1, in_1, key);
  or OR_1 (out_1, n_2, n_3);
  and AND0_1 (n_2, in_0, key);
  and AND1_1 (n_3, in_1, k_b);
endmodule
