// Benchmark "/storage/rpurdy/benchmarks/ISCAS/bench/c17" written by ABC on Tue Jun 30 14:50:35 2020

module c17_assign (
    G1, G2, G3, G6, G7,
    G22, G23  );
  input  G1, G2, G3, G6, G7;
  output G22, G23;
  wire G10, G11, G16, G19;
  assign G10 = ~G1 | ~G3;
  assign G11 = ~G3 | ~G6;
  assign G16 = ~G2 | ~G11;
  assign G19 = ~G11 | ~G7;
  assign G22 = ~G10 | ~G16;
  assign G23 = ~G16 | ~G19;
endmodule


