module test_blackbox_io(clk, i0, i1, o0);

    input clk, i0, i1;
    output o0;

    wire w0, w1;

    xor xor0(w0, i0, i1);
    ff ff0(.D(w0), .CK(clk), .Q(w1));
    not not0(o0, w1);
endmodule
