module test_part_select_inst_0(G1, G2);
  input [3:0] G1;
  output G2;

  and AND2(G2, G1[1:0], G1);
endmodule

module test_part_select_inst_1(G1, G2);
  input G1;
  output [3:0] G2;

  and AND2(G2[1:0], G1, G1);
endmodule

module test_part_select_assign_0(G1, G2);
  input [3:0] G1;
  output G2;

  assign G2 = G1[1:0] & G1;
endmodule

module test_part_select_assign_1(G1, G2);
  input G1;
  output [3:0] G2;

  assign G2[1:0] =  G1 & G1;
endmodule

module test_parameter_0 #(parameter test = 0) (G1, G2);
  input G1;
  output G2;

  assign G2 = G1;
endmodule

module test_parameter_1(G1, G2);
  input G1;
  output G2;

  parameter test = 0;

  assign G2 = G1;
endmodule

module test_concat_0(G1, G2);
  input G1;
  output [1:0] G2;

  assign G2 = {G1, G1};
endmodule

module test_concat_1(G1, G2, G3);
  input [1:0] G1;
  output G2, G3;

  assign {G2, G3} = G1;
endmodule

module test_instance(G1);
  input G1;

  fake_module i(G1);
endmodule

module test_seq(clk, G1, G2);
  input clk, G1;
  output G2;

  fflopd DFF_0_Q_reg(clk, G3, G4);
endmodule

module test_always(clk, G1, G2);
  input clk, G1;
  output G2;

  always@(posedge clk) begin
    G1 = G2;
  end
endmodule

module test_logical_operator(clk, G1, G2);
  input G1, G2;
  output G3;

  assign G3 = G1 && G2;
endmodule

module fflopd(CK, D, Q);
  input CK, D;
  output Q;
  wire CK, D;
  wire Q;
  wire next_state;
  reg  qi;
  assign #1 Q = qi;
  assign next_state = D;
  always
    @(posedge CK)
      qi <= next_state;
  initial
    qi <= 1'b0;
endmodule
