module test_blackbox_io(clk, i0, o0);

    input clk, i0;
    output o0;

    ff ff0(.D(i0), .CK(clk), .Q(o0));
endmodule
