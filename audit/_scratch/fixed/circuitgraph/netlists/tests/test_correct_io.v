module do_not_parse_0(G2, G3);
    input G2;
    output G3;

    assign G2 = ~G3;
endmodule

/* Comments Outside
Of a Module
*/
module test_correct_io(G1,G2,G3,G4,G5_0,G5_1,G17,G18,G19,G20,G21,G22_0,G22_1);
  // Comments Inside Module
  input G1,G2,G3,G4;
  /* Comments Inside Module */
  input G5_0,G5_1;
  output G17, G18,G19,G20,G21;
  output G22_0,
	  G22_1;

  wire G8_0,G8_1;

  nand NAND2_0 (G8_0,G1,G3);
  nor  NOR2_0( G17,G8_1,1'b1);
  and  AND2_0(G18,  G2,G5_0);
  xor  XOR2_0(G22_0,G5_1 ,G4);

  assign G8_1 = 1'b1;
  assign G19 = G1 & G2 & (G3 ^ G4);
  assign G20 = G17 ^ (G8_0 & G5_0);
  assign G22_1 = G1 & (~G2 | 1'b1);
  assign G21 = 1'b0;

endmodule

module do_not_parse_1(G2, G3);
    input G2;
    output G3;

    assign G2 = ~G3;
endmodule

module test_module_bb(clk, G0, G1, G2_0, G2_1, G18_0, G18_1);
    input clk, G0, G1;
    input G2_0,G2_1;
    output G18_0,G18_1;
    wire G3, G4, G5;

    ff DFF_0(.CK (clk), .D (G3), .Q (G4));
    and AND2_0(G3, G0, G1);
    and AND2_1(G18_1, G5, G2_1);
    ff DFF_1(.CK (clk), .D(G2_0), .Q(G5));
    ff DFF_2(.CK (clk), .D(G5), .Q(G18_0));
endmodule

