// Benchmark "/storage/rpurdy/benchmarks/ISCAS/bench/c17" written by ABC on Tue Jun 30 14:50:35 2020

module assign_test (
    G1, G2, G3, G6, G7,
    G22, G23  );
  input  G1, G2, G3, G6, G7;
  output G22, G23;
  assign G22 = (~G1 & G2) | G3 | (G4 ^ ~G6 & (G2 | G3));
  assign G23 = G1 & G22;
endmodule


  // assign G23 = G1 ^ G2 ^ (G4 & G3 & ~G6);
