"""
Functions for transforming circuits.

Examples
--------
Synthesize a circuit using yosys

>>> import circuitgraph as cg
>>> c = cg.from_lib("c1908")
>>> c = cg.tx.syn(c, suppress_output=True)

"""
import os
import re
import shutil
import subprocess
from collections import defaultdict
from functools import reduce
from pathlib import Path
from queue import Queue
from tempfile import NamedTemporaryFile

import networkx as nx

import circuitgraph as cg


def strip_io(c):
    """
    Remove a circuit's outputs and convert inputs to buffers.

    Parameters
    ----------
    c : Circuit
            Input circuit.

    Returns
    -------
    Circuit
            Circuit with removed io.

    """
    g = c.graph.copy()
    for i in c.inputs():
        g.nodes[i]["type"] = "buf"
    for o in c.outputs():
        g.nodes[o]["output"] = False

    return cg.Circuit(graph=g, name=c.name, blackboxes=c.blackboxes.copy())


def strip_outputs(c):
    """
    Remove a circuit's outputs for easy instantiation.

    Parameters
    ----------
    c : Circuit
            Input circuit.

    Returns
    -------
    Circuit
            Circuit with removed io.

    """
    g = c.graph.copy()
    for o in c.outputs():
        g.nodes[o]["output"] = False

    return cg.Circuit(graph=g, name=c.name, blackboxes=c.blackboxes.copy())


def strip_inputs(c):
    """
    Convert inputs to buffers for easy instantiation.

    Parameters
    ----------
    c : Circuit
            Input circuit.

    Returns
    -------
    Circuit
            Circuit with removed io.

    """
    g = c.graph.copy()
    for i in c.inputs():
        g.nodes[i]["type"] = "buf"

    return cg.Circuit(graph=g, name=c.name, blackboxes=c.blackboxes.copy())


def strip_blackboxes(c, ignore_pins=None):
    """
    Convert blackboxes to io.

    Parameters
    ----------
    c : Circuit
            Input circuit.
    ingnore_pins: str or list of str
            Pins to not create io for, just disconnect and delete.

    Returns
    -------
    Circuit
            Circuit with removed blackboxes.

    """
    if not ignore_pins:
        ignore_pins = []
    elif isinstance(ignore_pins, str):
        ignore_pins = [ignore_pins]
    g = c.graph.copy()
    bb_pins = []
    for n in c.filter_type("bb_input"):
        if n.split(".")[-1] in ignore_pins:
            g.remove_node(n)
        else:
            g.nodes[n]["type"] = "buf"
            g.nodes[n]["output"] = True
            bb_pins.append(n)
    for n in c.filter_type("bb_output"):
        if n.split(".")[-1] in ignore_pins:
            g.remove_node(n)
        else:
            g.nodes[n]["type"] = "input"
            bb_pins.append(n)

    # rename nodes
    mapping = {n: n.replace(".", "_") for n in bb_pins}
    for k in mapping.values():
        if k in g:
            raise ValueError(f"Overlapping blackbox name: {k}")
    nx.relabel_nodes(g, mapping, copy=False)

    return cg.Circuit(graph=g, name=c.name)


def relabel(c, mapping):
    """
    Build copy of circuit with relabeled nodes.

    Parameters
    ----------
    c : Circuit
            Input circuit.
    mapping : dict of str:str
            Relabeling of nodes.

    Returns
    -------
    Circuit
            Circuit with removed blackboxes.

    """
    g = nx.relabel_nodes(c.graph, mapping)
    return cg.Circuit(graph=g, name=c.name, blackboxes=c.blackboxes.copy())


def subcircuit(c, nodes, modify_io=False):
    """
    Create a subcircuit from a set of nodes of a given circuit.

    Parameters
    ----------
    c: Circuit
            The circuit to create a subcircuit from.
    nodes: list of str
            The nodes to include in the subcircuit.
    modify_io: bool
            If True, gates without drivers will be turned into inputs and gates without
            fanout will be marked as outputs.

    Returns
    -------
    Circuit
            The subcircuit.

    """
    sc = cg.Circuit()
    for node in nodes:
        if c.type(node) in ["bb_output", "bb_input"]:
            raise NotImplementedError("Cannot create a subcircuit with blackboxes")
        sc.add(node, c.type(node), output=c.is_output(node))
    for edge in c.edges():
        if edge[0] in nodes and edge[1] in nodes:
            sc.connect(edge[0], edge[1])
    if modify_io:
        for node in sc:
            if sc.type(node) not in ["0", "1", "x"] and not sc.fanin(node):
                sc.set_type(node, "input")
            if not sc.fanout(node):
                sc.set_output(node)
    return sc


def syn(
    c,
    engine="yosys",
    suppress_output=False,
    stdout_file=None,
    stderr_file=None,
    working_dir=".",
    fast_parsing=False,
    pre_syn_file=None,
    post_syn_file=None,
    verilog_exists=False,
    effort="high",
):
    """
    Synthesize the circuit using a third-party synthesis tool.

    Parameters
    ----------
    c : Circuit
            Circuit to synthesize.
    engine : str
            Synthesis tool to use ('genus', 'dc', or 'yosys').
    suppress_output: bool
            If True, synthesis stdout will not be printed.
    stdout_file: file or str or None
            If defined, synthesis stdout will be directed to this file instead
            of being printed.
    output_file: file or str or None
            If defined, synthesis stderr will be written to this file instead
            of being printed.
    working_dir: str
            The path to run synthesis from. If using genus, this will effect
            where the genus run files are stored. Directory will be created
            if it does not exist.
    fast_parsing: bool
            If True, will use fast verilog parsing (which requires
            specifically formatted netlists, see the documentation for
            `verilog_to_circuit`).
    pre_syn_file: file or str or None
            If specified, the circuit verilog will be written to this file
            before synthesis. If None, a temporary file will be used.
    post_syn_file: file or str or None
            If specified, the synthesis output verilog will be written to this
            file. If None, a temporary file will be used.
    verilog_exists: bool
            If True, does not write `c` to a file, instead uses the verilog
            already present in `pre_syn_file`.
    effort: str
            The effort to use for synthesis. Either 'high', 'medium', or 'low'.

    Returns
    -------
    Circuit
            Synthesized circuit.

    """
    if engine == "yosys" and shutil.which("yosys") is None:
        raise OSError("'yosys' installation not found")

    if engine == "genus" and shutil.which("genus") is None:
        raise OSError("'genus' installation not found")

    if engine == "dc":
        dc_engine = "dc_shell-t"
        if shutil.which("dc_shell-t") is None:
            dc_engine = "dc_shell"
            if shutil.which("dc_shell") is None:
                raise OSError("'dc_shell-t' or 'dc_shell' installation not found")

    working_dir = Path(working_dir)
    working_dir.mkdir(exist_ok=True)
    working_dir = str(working_dir)

    # Make paths absolute in case synthesis is run from different working dir
    if pre_syn_file:
        pre_syn_file = Path(pre_syn_file).absolute()
    if post_syn_file:
        post_syn_file = Path(post_syn_file).absolute()

    if verilog_exists and not pre_syn_file:
        raise ValueError("Must specify pre_syn_file if using verilog_exists")

    with open(pre_syn_file) if verilog_exists else open(
        pre_syn_file, "w"
    ) if pre_syn_file else NamedTemporaryFile(
        prefix="circuitgraph_synthesis_input", suffix=".v", mode="w"
    ) as tmp_in:
        if not verilog_exists:
            verilog = cg.io.circuit_to_verilog(c)
            tmp_in.write(verilog)
            tmp_in.flush()
        with open(post_syn_file, "w+") if post_syn_file else NamedTemporaryFile(
            prefix="circuitgraph_synthesis_output", suffix=".v", mode="r"
        ) as tmp_out:
            if engine == "genus":
                try:
                    lib_path = os.environ["CIRCUITGRAPH_GENUS_LIBRARY_PATH"]
                except KeyError as e:
                    raise ValueError(
                        "In order to run synthesis with Genus, please set the "
                        "CIRCUITGRAPH_GENUS_LIBRARY_PATH variable in your os "
                        "environment to the path to the tech library to use"
                    ) from e
                cmd = [
                    "genus",
                    "-no_gui",
                    "-execute",
                    "set_db / .library "
                    f"{lib_path};\n"
                    f"read_hdl -sv {tmp_in.name};\n"
                    "elaborate;\n"
                    f"set_db syn_generic_effort {effort};\n"
                    "syn_generic;\n"
                    "syn_map;\n"
                    "syn_opt;\n"
                    f'redirect {tmp_out.name} "write_hdl -generic";\n'
                    "exit;",
                ]
            elif engine == "dc":
                try:
                    lib_path = os.environ["CIRCUITGRAPH_DC_LIBRARY_PATH"]
                except KeyError as e:
                    raise ValueError(
                        "In order to run synthesis with DC, please set the "
                        "CIRCUITGRAPH_DC_LIBRARY_PATH variable in your os environment "
                        "to the path to the GTECH library"
                    ) from e
                libname = "GTECH"
                usable_cells = [f"{libname.lower()}/{libname}_NOT"]
                for gate in ["OR", "NOR", "AND", "NAND", "XOR", "XNOR"]:
                    usable_cells += [
                        f"{libname.lower()}/{libname}_{gate}{i}" for i in range(2, 5)
                    ]
                usable_cells += [
                    f"{libname.lower()}/{libname}_FD{i}" for i in range(1, 4)
                ]
                execute = (
                    f"set_app_var target_library {lib_path};\n"
                    f"set_app_var link_library {lib_path};\n"
                    "set_dont_use [remove_from_collection "
                    f"[get_lib_cells {libname.lower()}/*] "
                    f"\"{' '.join(usable_cells)}\"];\n"
                    f"read_file {tmp_in.name}\n"
                    "link;\n"
                    "uniquify;\n"
                    "check_design;\n"
                    "simplify_constants;\n"
                    f"compile;\n"
                    f"write -format verilog -output {tmp_out.name};\n"
                    "exit;"
                )
                cmd = [dc_engine, "-no_gui", "-x", execute]
            elif engine == "yosys":
                cmd = [
                    "yosys",
                    "-p",
                    f"read_verilog {tmp_in.name}; "
                    "synth; "
                    f"write_verilog -noattr {tmp_out.name}",
                ]
            else:
                raise ValueError("synthesis engine must be yosys, dc, or genus")

            if suppress_output and not stdout_file:
                stdout = subprocess.DEVNULL
            elif stdout_file:
                stdout = open(stdout_file, "w")
            else:
                stdout = None
            if stderr_file:
                stderr = open(stderr_file, "w")
            else:
                stderr = None
            subprocess.run(
                cmd, stdout=stdout, stderr=stderr, cwd=working_dir, check=True
            )
            if stdout_file:
                stdout.close()
            if stderr_file:
                stderr.close()

            output_netlist = tmp_out.read()

            # Rename dc library gates
            if engine == "dc":

                def replace_gate(match):
                    # Keep flops as they are
                    if match.group(1).startswith(f"{libname}_FD"):
                        return match
                    ports = [
                        i.strip().split("(")[-1].strip(")")
                        for i in match.group(3).split(",")
                    ]
                    portlist = ", ".join(reversed(ports))
                    return f"{match.group(1).lower()} {match.group(2)}({portlist});"

                output_netlist = re.sub(
                    rf"{libname}_([A-Z]+)[1-4]?\s+"
                    r"([a-zA-Z][a-zA-Z\d_]*)\s*\(([^;]+)\);",
                    replace_gate,
                    output_netlist,
                )

    return cg.io.verilog_to_circuit(output_netlist, c.name, fast=fast_parsing)


def aig(c):
    """
    Transform a circuit into and and-inverter graph.

    Parameters
    ----------
    c: Circuit
            The circuit to transform to an AIG.

    Returns
    -------
    Circuit
            The AIG circuit.

    """
    with NamedTemporaryFile(
        prefix="circuitgraph_aig_input", suffix=".v", mode="w"
    ) as tmp_in:
        cg.to_file(c, tmp_in.name)
        with NamedTemporaryFile(
            prefix="circuitgraph_aig_output", suffix=".v", mode="r"
        ) as tmp_out:
            execute = (
                f"read_verilog {tmp_in.name}; aigmap; "
                "opt; "
                f"write_verilog -noattr {tmp_out.name}"
            )
            subprocess.run(
                ["yosys", "-p", execute], stdout=subprocess.DEVNULL, check=True
            )
            c = cg.from_file(tmp_out.name)
    # c = remove_bufs(c)
    return c


def ternary(c):
    """
    Encode the circuit with ternary values.

    The ternary circuit adds a second net for each net in the original circuit.
    The second net encodes a don't care, or X, value. That net being high
    corresponds to a don't care value on original net. If the second net is
    low, the logical value on the original net is valid.

    Parameters
    ----------
    c : Circuit
            Circuit to encode.
    suffix: str
            The suffix to give the added nets. Note that it is safest to use
            the returned dictionary to refer to the added nets because they
            are uniquified when they are added to the circuit.

    Returns
    -------
    Circuit, dict of str:str
            Encoded circuit and dictionary mapping original net names to added ternary
            net names.

    """
    if c.blackboxes:
        raise ValueError(f"{c.name} contains a blackbox")
    t = c.copy()

    # add dual nodes
    mapping = {n: c.uid(f"{n}_X") for n in c}
    for n in c:
        if c.type(n) in ["and", "nand"]:
            t.add(mapping[n], "and", output=c.is_output(n), allow_redefinition=True)
            t.add(
                f"{n}_x_in_fi",
                "or",
                fanout=mapping[n],
                fanin=[mapping[p] for p in c.fanin(n)],
                uid=True,
                add_connected_nodes=True,
            )
            zero_not_in_fi = t.add(
                f"{n}_0_not_in_fi", "nor", fanout=mapping[n], uid=True
            )
            for p in c.fanin(n):
                t.add(
                    f"{p}_is_0",
                    "nor",
                    fanout=zero_not_in_fi,
                    fanin=[p, mapping[p]],
                    uid=True,
                )
        elif c.type(n) in ["or", "nor"]:
            t.add(mapping[n], "and", output=c.is_output(n), allow_redefinition=True)
            t.add(
                f"{n}_x_in_fi",
                "or",
                fanout=mapping[n],
                fanin=[mapping[p] for p in c.fanin(n)],
                uid=True,
                add_connected_nodes=True,
            )
            one_not_in_fi = t.add(
                f"{n}_1_not_in_fi", "nor", fanout=mapping[n], uid=True
            )
            for p in c.fanin(n):
                is_one = t.add(
                    f"{p}_is_1", "and", fanout=one_not_in_fi, fanin=p, uid=True
                )
                t.add(f"{p}_not_x", "not", fanout=is_one, fanin=mapping[p], uid=True)
        elif c.type(n) in ["buf", "not"]:
            p = c.fanin(n).pop()
            t.add(
                mapping[n],
                "buf",
                fanin=mapping[p],
                output=c.is_output(n),
                add_connected_nodes=True,
                allow_redefinition=True,
            )
        elif c.type(n) in ["xor", "xnor"]:
            t.add(
                mapping[n],
                "or",
                fanin=[mapping[p] for p in c.fanin(n)],
                output=c.is_output(n),
                add_connected_nodes=True,
                allow_redefinition=True,
            )
        elif c.type(n) in ["0", "1"]:
            t.add(mapping[n], "0", output=c.is_output(n), allow_redefinition=True)
        elif c.type(n) in ["input"]:
            t.add(mapping[n], "input", allow_redefinition=True)
        else:
            raise ValueError(f"Node '{n}' has invalid type: '{c.type(n)}'")

    return t, mapping


def miter(c0, c1=None, startpoints=None, endpoints=None):
    """
    Create a miter circuit.

    Parameters
    ----------
    c0 : Circuit
            First circuit.
    c1 : Circuit
            Optional second circuit, if None c0 is mitered with itself.
    startpoints : set of str
            Nodes to be tied together, must exist in both circuits.
    endpoints : set of str
            Nodes to be compared, must exist in both circuits.

    Returns
    -------
    Circuit
            Miter circuit.

    """
    # check for blackboxes
    if c0.blackboxes:
        raise ValueError(f"{c0.name} contains a blackbox")
    if c1 and c1.blackboxes:
        raise ValueError(f"{c1.name} contains a blackbox")

    # clean inputs
    if not c1:
        c1 = c0
    if not startpoints:
        startpoints = c0.startpoints() & c1.startpoints()
    if not endpoints:
        endpoints = c0.endpoints() & c1.endpoints()

    # create miter, relabel
    m = cg.Circuit(name=f"miter_{c0.name}_{c1.name}")
    m.add_subcircuit(c0, "c0")
    m.add_subcircuit(c1, "c1")

    # tie inputs
    for n in startpoints:
        m.add(n, "input", fanout=[f"c0_{n}", f"c1_{n}"])

    # compare outputs
    m.add("sat", "or" if len(endpoints) > 1 else "buf", output=True)
    for n in endpoints:
        m.add(f"dif_{n}", "xor", fanin=[f"c0_{n}", f"c1_{n}"], fanout="sat")

    return m


def sequential_unroll(
    c,
    n,
    reg_d_port,
    reg_q_port,
    ignore_pins=None,
    add_flop_outputs=False,
    initial_values=None,
    remove_unloaded=True,
    prefix="cg_unroll",
):
    """
    Unroll a sequential circuit.

    Provides a higher level API than `unroll` by accepting a circuit with
    sequential elements kept as blackboxes. Assumes that all blackboxes in
    the circuit are sequential elements.

    Parameters
    ----------
    c: Circuit
            Circuit to unroll.
    n: int
            The number of unrolled copies of the circuit to create.
    reg_d_port: str
            The name of the D port in the blackboxes in `c`.
    reg_q_port: str
            The name of the Q port in the blackboxes in `c`.
    ignore_pins: str or list of str
            The names of pins in the blackboxes to ignore.
    add_flop_outputs: bool
            If True, the Q port of the flops will be added as primary outputs.
    initial_values: str or dict of str:str
            The initial values of the data ports for the first timestep.
            If None, the ports will be added as primary inputs.
            If a single value ('0', '1', or 'x'), every flop will get that value.
            Can also pass in dict mapping flop names to values.
    remove_unloaded: bool
            If True, unloaded inputs will be removed after unrolling. This can remove
            unused sequential signals such as the clock and reset.
    prefix: str
            The prefix to use for naming unrolled nodes.

    Returns
    -------
    Circuit, dict of str:list of str
            Unrolled circuit and mapping of original circuit io to list of unrolled
            circuit io. The lists are in order of the unroll iterations.

    """
    cs = strip_blackboxes(c, ignore_pins=ignore_pins)
    blackbox = c.blackboxes[set(c.blackboxes.keys()).pop()]

    # ignored pins are already gone (they were deleted, not renamed): a node that
    # carries the name `{bb}_{pin}` of an ignored pin is an ordinary net
    if ignore_pins is None:
        ignored = set()
    elif isinstance(ignore_pins, str):
        ignored = {ignore_pins}
    else:
        ignored = set(ignore_pins)

    if reg_d_port not in blackbox.inputs():
        raise ValueError(f"Provided d port {reg_d_port} not in bb inputs")
    cs.remove(
        f"{bb}_{p}"
        for p in blackbox.inputs() - {reg_d_port} - ignored
        for bb in c.blackboxes
    )

    if reg_q_port not in blackbox.outputs():
        raise ValueError(f"Provided q port {reg_q_port} not in bb outputs")
    cs.remove(
        f"{bb}_{p}"
        for p in blackbox.outputs() - {reg_q_port} - ignored
        for bb in c.blackboxes
    )

    if remove_unloaded:
        for i in cs.inputs():
            if not cs.fanout(i):
                cs.remove(i)

    state_io = {f"{bb}_{reg_d_port}": f"{bb}_{reg_q_port}" for bb in c.blackboxes}
    uc, io_map = unroll(cs, n, state_io, prefix=prefix)

    for state_output in (f"{bb}_{reg_d_port}" for bb in c.blackboxes):
        uc.set_output(io_map[state_output], add_flop_outputs)

    if initial_values:
        if isinstance(initial_values, str):
            for fi in [io_map[f"{bb}_{reg_q_port}"][0] for bb in c.blackboxes]:
                uc.set_type(fi, initial_values)
        else:
            for k, v in initial_values.items():
                uc.set_type(io_map[f"{k}_{reg_q_port}"][0], v)

    return uc, io_map


def unroll(c, n, state_io, prefix="cg_unroll"):
    """
    Unroll a circuit.

    Create multiple copies of the circuit and connect together state io.

    Parameters
    ----------
    c: Circuit
            Circuit to unroll.
    n: int
            The number of unrolled copies of the circuit to create.
    state_io: dict of str:str
            For each `(k, v)` pair in the dict, `k` of circuit iteration `n - 1` will be
            tied to `v` of circuit iteration `n`.
    prefix: str
            The prefix to use for naming new io for each iteration.

    Returns
    -------
    Circuit, dict of str:list of str
            Unrolled circuit and mapping of original circuit io to list of unrolled
            circuit io. The lists are in order of the unroll iterations.

    """
    # check for blackboxes
    if c.blackboxes:
        raise ValueError(f"{c.name} contains a blackbox")

    if n < 1:
        raise ValueError(f"n must be >= 1 ({n})")

    for k, v in state_io.items():
        if k not in c.io():
            raise ValueError(f"Node '{k}' in state_io dict but not in io of circuit")
        if v not in c.io():
            raise ValueError(f"Node '{v}' in state_io dict but not in io of circuit")

    uc = cg.Circuit()

    io_map = {io: [] for io in c.io()}
    for itr in range(n):
        for io in c.io():
            new_io = c.uid(f"{io}_{prefix}_{itr}")
            if io in state_io.values():
                t = "buf"
            elif io in c.inputs():
                t = "input"
            else:
                t = "buf"

            uc.add(new_io, t, output=c.is_output(io))
            io_map[io].append(new_io)

        # connect to the io nodes created above (their names may have been made
        # unique, see `c.uid`)
        uc.add_subcircuit(c, f"unrolled_{itr}", {i: io_map[i][itr] for i in c.io()})

        if itr == 0:
            for i in state_io.values():
                uc.set_type(io_map[i][itr], "input")
        else:
            for k, v in state_io.items():
                uc.connect(io_map[k][itr - 1], io_map[v][itr])

    return uc, io_map


def sensitization_transform(c, n, endpoints=None):
    """
    Create a circuit to sensitize a node to an endpoint.

    Create a miter circuit with that node inverted in one circuit copy.

    Parameters
    ----------
    c : Circuit
            Input circuit.
    n : str
            Node to sensitize.
    endpoints: str or list of str
            Endpoints to sensitize to. If None, any output
            can be used for sensitization.

    Returns
    -------
    Circuit
            Output circuit.

    """
    # check for blackboxes
    if c.blackboxes:
        raise ValueError("Circuit contains a blackbox")

    if endpoints:
        if isinstance(endpoints, str):
            endpoints = {endpoints}
        else:
            endpoints = set(endpoints)
        fi = c.transitive_fanin(endpoints)
        if n not in fi and n not in endpoints:
            raise ValueError(f"'{n}' is not in fanin of given endpoints")
        subc = subcircuit(c, endpoints | fi)
        for node in subc:
            subc.set_output(node, node in endpoints)
        miter_name = f"{c.name}_sensitize_{n}_to_{'_'.join(endpoints)}"
    else:
        subc = c
        miter_name = f"{c.name}_sensitize_{n}"

    # create miter
    m = miter(subc)
    m.name = miter_name

    # flip node in c1
    m.disconnect(m.fanin(f"c1_{n}"), f"c1_{n}")
    m.set_type(f"c1_{n}", "not")
    m.connect(f"c0_{n}", f"c1_{n}")

    return m


def sensitivity_transform(c, n):
    """
    Create a circuit to compute sensitivity.

    Creatie a miter circuit for each input 'i' with the fanin cone of `n`
    where the second circuit has 'i' inverted, so that the miter output is
    high when `n` is sensitive to 'i'. The uninverted circuit is shared
    across all miters and the outputs of the miters are fed into a
    population count circuit so that the output of the population count
    circuit gives the sensitivity of `n` for a given input pattern.

    Parameters
    ----------
    c : Circuit
            Sequential circuit to ccompute sensitivity for.
    n : str
            Node to compute sensitivity at.

    Returns
    -------
    Circuit
            Sensitivity circuit.

    """
    # check for blackboxes
    if c.blackboxes:
        raise ValueError(f"{c.name} contains a blackbox")

    # check for startpoints
    startpoints = c.startpoints(n)
    if len(startpoints) < 1:
        raise ValueError(f"{n} has no startpoints")

    # get input cone
    fi_nodes = c.transitive_fanin(n) | {n}
    sub_c = cg.Circuit(graph=c.graph.subgraph(fi_nodes).copy())

    # create sensitivity circuit
    sen = cg.Circuit()
    sen.add_subcircuit(sub_c, "orig")
    for s in startpoints:
        sen.add(s, "input", fanout=f"orig_{s}")

    # add popcount
    sen.add_subcircuit(cg.logic.popcount(len(startpoints)), "pc")

    # add inverted input copies
    for i, s0 in enumerate(startpoints):
        sen.add_subcircuit(sub_c, f"inv_{s0}")

        # connect inputs
        for s1 in startpoints:
            if s0 != s1:
                sen.connect(s1, f"inv_{s0}_{s1}")
            else:
                # connect inverted input
                sen.set_type(f"inv_{s0}_{s1}", "not")
                sen.connect(s0, f"inv_{s0}_{s1}")

        # compare to orig
        sen.add(
            f"dif_out_{s0}",
            "xor",
            fanin=[f"orig_{n}", f"inv_{s0}_{n}"],
            fanout=f"pc_in_{i}",
            output=True,
        )

    # instantiate population count
    for o in range(cg.utils.clog2(len(startpoints) + 1)):
        sen.add(f"sen_out_{o}", "buf", fanin=f"pc_out_{o}", output=True)

    return sen


def limit_fanin(c, k):
    """
    Reduce the maximum fanin of circuit gates to k.

    Parameters
    ----------
    c : Circuit
            Input circuit.
    k : str
            Maximum fanin. (k >= 2)

    Returns
    -------
    Circuit
            Output circuit.

    """
    if k < 2:
        raise ValueError(f"'k' must be >= 2, not '{k}'")

    gatemap = {
        "and": "and",
        "nand": "and",
        "or": "or",
        "nor": "or",
        "xor": "xor",
        "xnor": "xor",
    }

    ck = c.copy()
    for n in ck.nodes():
        i = 0
        while len(ck.fanin(n)) > k:
            fi = ck.fanin(n)
            f0 = fi.pop()
            f1 = fi.pop()
            ck.disconnect([f0, f1], n)
            ck.add(
                f"{n}_limit_fanin_{i}",
                gatemap[ck.type(n)],
                fanin=[f0, f1],
                fanout=n,
                uid=True,
            )
            i += 1

    return ck


def limit_fanout(c, k):
    """
    Reduce the maximum fanout of circuit gates to k.

    Parameters
    ----------
    c : Circuit
            Input circuit.
    k : str
            Maximum fanout. (k >= 2)

    Returns
    -------
    Circuit
            Output circuit.

    """
    if k < 2:
        raise ValueError(f"'k' must be >= 2, not '{k}'")

    ck = c.copy()
    for n in ck.nodes():
        i = 0
        while len(ck.fanout(n)) > k:
            fo = ck.fanout(n)
            f0 = fo.pop()
            f1 = fo.pop()
            ck.disconnect(n, [f0, f1])
            ck.add(
                f"{n}_limit_fanout_{i}",
                "buf",
                fanin=n,
                fanout=[f0, f1],
                uid=True,
            )
            i += 1

    return ck


def acyclic_unroll(c):
    """
    Unroll a cyclic circuit to remove cycles.

    Parameters
    ----------
    c: Circuit
            Circuit to unroll.

    Returns
    -------
    Circuit
            The unrolled circuit.

    """
    if c.blackboxes:
        raise ValueError("Cannot perform acyclic unroll with blackboxes")

    def approx_min_fas(g):
        g_copy = g.copy()
        s1, s2 = [], []
        while g_copy.nodes:
            # find sinks
            sinks = [n for n in g_copy.nodes if g_copy.out_degree(n) == 0]
            while sinks:
                s2 += sinks
                g_copy.remove_nodes_from(sinks)
                sinks = [n for n in g_copy.nodes if g_copy.out_degree(n) == 0]

            # find sources
            sources = [n for n in g_copy.nodes if g_copy.in_degree(n) == 0]
            while sources:
                s1 += sources
                g_copy.remove_nodes_from(sources)
                sources = [n for n in g_copy.nodes if g_copy.in_degree(n) == 0]

            # choose max in/out degree difference
            if g_copy.nodes:
                n = max(
                    g_copy.nodes,
                    key=lambda x: g_copy.out_degree(x) - g_copy.in_degree(x),
                )
                s1.append(n)
                g_copy.remove_node(n)

        ordering = s1 + list(reversed(s2))
        feedback_edges = [
            e for e in g.edges if ordering.index(e[0]) > ordering.index(e[1])
        ]
        feedback_edges = [
            (u, v) for u, v in feedback_edges if u in nx.descendants(g, v)
        ]

        g_copy = g.copy()
        g_copy.remove_edges_from(feedback_edges)
        try:
            if nx.find_cycle(g_copy):
                raise ValueError("approx_min_fas has failed")
        except nx.NetworkXNoCycle:
            pass

        return feedback_edges

    # find feedback nodes
    feedback = {e[0] for e in approx_min_fas(c.graph)}

    # get startpoints
    sp = c.startpoints()

    # create acyclic circuit
    acyc = cg.Circuit(name=f"acyc_{c.name}")
    for n in sp:
        acyc.add(n, "input")

    # create copy with broken feedback
    c_cut = c.copy()
    for f in feedback:
        fanout = c.fanout(f)
        c_cut.disconnect(f, fanout)
        c_cut.add(f"aux_in_{f}", "buf", fanout=fanout)
    c_cut.set_output(c.outputs(), False)

    # cut feedback
    for i in range(len(feedback) + 1):
        # instantiate copy
        acyc.add_subcircuit(c_cut, f"c{i}", {n: n for n in sp})

        if i > 0:
            # connect to last
            for f in feedback:
                acyc.connect(f"c{i-1}_{f}", f"c{i}_aux_in_{f}")
        else:
            # make feedback inputs
            for f in feedback:
                acyc.set_type(f"c{i}_aux_in_{f}", "input")

    # connect outputs
    for o in c.outputs():
        if o in sp:
            # an output that is itself a startpoint is already in the circuit
            acyc.set_output(o)
        else:
            acyc.add(o, "buf", fanin=f"c{i}_{o}", output=True)

    cg.lint(acyc)
    if acyc.is_cyclic():
        raise ValueError("Circuit still cyclic")
    return acyc


def supergates(c, construct_supercircuit=False):
    """
    Break the circuit up into supergates.

    Calculate the minimal covering of all circuit nodes with maximal supergates
    of a circuit. For more information, see
    Sharad C. Seth and Vishwani D. Agrawal. "A new model for computation of
    probabilistic testability in combinational circuits." Integration 7.1
    (1989): 49-75.

    Parameters
    ----------
    c: Circuit
            The circuit to compute supergates for
    construct_supercircuit: bool
            If True, a circuit connecting together the supergates as black boxes
            will be formed. Currently this only works if `c` has only one output.

    Returns
    -------
    list of Circuit or (Circuit, dict of str:Circuit)
            If `construct_supercircuit` is `False`, the supergate circuits,
            topologically sorted. Otherwise, the supercircuit and a dict
            mapping blackbox names to corresponding supergates.

    """
    if construct_supercircuit and len(c.outputs()) > 1:
        raise ValueError(
            "Can only use `construct_supercircuit` one a single-output circuit"
        )
    # The current algorithm seems to fail for some circuits (like c880) with gates with
    # fanin greater than 2. At the moment not sure if this is a bug in the
    # implementation or expected behavior
    c = limit_fanin(c, 2)
    supergate_circuits = set()
    for output in c.outputs():
        c_output = subcircuit(c, c.transitive_fanin(output) | {output})
        c_output.set_output(c_output.outputs(), False)
        c_output.set_output(output, True)

        g = c_output.graph.copy()

        # Add backwards edge for every forward edge not connected to an output
        rm_edges = []
        for u, v in g.edges:
            g.add_edge(v, u)
            if v == output:
                rm_edges.append((u, v))
        for u, v in rm_edges:
            g.remove_edge(u, v)

        # Get dominator tree
        doms = nx.immediate_dominators(g, output)
        dom_tree = defaultdict(set)
        for k, v in doms.items():
            dom_tree[v].add(k)

        # Build supergates starting at the output
        # newer networkx versions do not list the root as its own dominator
        dom_tree[output].discard(output)
        frontier = Queue()
        frontier.put(output)
        while not frontier.empty():
            # Build the supergate for this node
            node = frontier.get()
            supergate = {node}
            # Include children and single successors
            fanins = Queue()
            for fi in dom_tree[node]:
                fanins.put(fi)
            while not fanins.empty():
                fi = fanins.get()
                supergate.add(fi)
                if len(dom_tree[fi]) > 1:
                    frontier.put(fi)
                elif len(dom_tree[fi]) == 1:
                    fanins.put(dom_tree[fi].pop())
            supergate_circuit = subcircuit(c_output, supergate, modify_io=True)
            supergate_circuit.set_output(node, True)
            supergate_circuits.add(supergate_circuit)

    # Find minimal covering of supergates indexed by the output
    # Redundant supergates are dropped one at a time, so that two supergates which
    # cover each other (e.g. the same supergate found from two outputs) are not
    # both removed
    kept_supergate_circuits = set(supergate_circuits)
    for supergate in supergate_circuits:
        remaining_cover = reduce(
            lambda a, b: a | b,
            (s.nodes() - s.inputs() for s in kept_supergate_circuits - {supergate}),
            set(),
        )
        if not supergate.nodes() - remaining_cover:
            kept_supergate_circuits.discard(supergate)
    minimal_supergate_circuits = {}
    for supergate in kept_supergate_circuits:
        minimal_supergate_circuits[supergate.outputs().pop()] = supergate

    if construct_supercircuit:
        superc = cg.Circuit(f"{c.name}_supergates")
        for i in c.inputs():
            superc.add(i, "input")
        for o in c.outputs():
            superc.add(o, "buf", output=True)

        supergate_map = {}
        for output, supergate in minimal_supergate_circuits.items():
            sg_name = f"sg_{output}"
            supergate_map[sg_name] = supergate
            bb = cg.BlackBox(name=sg_name, inputs=supergate.inputs(), outputs={output})
            for n in supergate.io():
                if n not in superc:
                    superc.add(n, "buf")
            superc.add_blackbox(bb, sg_name, {i: i for i in supergate.io()})

        return superc, supergate_map

    # Find topological ordering of supergates
    g = nx.DiGraph()
    for output, supergate in minimal_supergate_circuits.items():
        g.add_node(output)
        for i in supergate.inputs() - c.inputs():
            for other_output in set(minimal_supergate_circuits) - {output}:
                other_supergate = minimal_supergate_circuits[other_output]
                if i in other_supergate.nodes() - other_supergate.inputs():
                    g.add_edge(other_output, output)

    sorted_supergate_circuits = []
    for node in nx.topological_sort(g):
        sorted_supergate_circuits.append(minimal_supergate_circuits[node])
    return sorted_supergate_circuits


def insert_registers(
    c,
    num_stages,
    ff=cg.generic_flop,
    d_port="d",
    q_port="q",
    other_flop_io={"clk": "clk"},
    q_suffix="_cg_insert_reg_q_",
):
    """
    Insert pipeline registers into a combinational design.

    Parameters
    ----------
    c: circuitgraph.Circuit
            The circuit to insert registers into.
    num_stages: int
            The number of stages to add.
    ff: circuitgraph.BlackBox
            The flip flop blackbox to use.
    d_port: str
            The d port on the flip flop blackbox.
    q_port: str
            The q port on the flip flop blackbox.
    other_flop_io: dict of str:str
            Other io to connect on the flop (e.g. clk, rst ports).
            Dict maps circuit nodes to flop ports. If a node is
            present in the dict but not in the circuit, it will be
            added as an input.
    q_suffix: str
            Inserted q nodes are named with the suffix `{q_suffix}{i}` where
            `i` is the level the flop is inserted at.

    Returns
    -------
    circuitgraph.Circuit
            The circuit with added registers.

    """
    c_reg = c.copy()
    nodes_at_depths = []
    max_depth = 0
    for n in c_reg:
        depth = c_reg.fanin_depth(n)
        while depth >= len(nodes_at_depths):
            nodes_at_depths.append([])
        nodes_at_depths[depth].append(n)
        if depth > max_depth:
            max_depth = depth

    depth_inc = round(max_depth / (num_stages + 1))
    for n in other_flop_io:
        if n not in c_reg:
            c_reg.add(n, "input")
    for i in range(depth_inc, max_depth, depth_inc):
        for n in nodes_at_depths[i]:
            fanout = c_reg.fanout(n)
            c_reg.disconnect(n, fanout)
            q = c_reg.add(f"{n}{q_suffix}{i}", "buf", uid=True, fanout=fanout)
            conns = {d_port: n, q_port: q}
            # `other_flop_io` maps circuit nodes to flop ports, connections map
            # flop ports to circuit nodes
            conns.update({port: node for node, port in other_flop_io.items()})
            c_reg.add_blackbox(ff, f"ff_{n}", conns)
    return c_reg
