"""
Functions for executing SAT, #SAT, and approx-#SAT on circuits.

Examples
--------
Use sat solver to simulate circuit values

>>> import circuitgraph as cg
>>> c = cg.Circuit()
>>> c.add("i0", "input")
'i0'
>>> c.add("i1", "input")
'i1'
>>> c.add("g0", "and", fanin=["i0", "i1"])
'g0'
>>> res = cg.sat.solve(c, assumptions={"i0": True, "i1": False})
>>> res["g0"]
False

Setup a miter circuit

>>> c1 = cg.from_lib("c17")
>>> c2 = c1.copy()
>>> m = cg.tx.miter(c1, c2)
>>> cg.sat.solve(m, assumptions={"sat": True})
False

"""
import re
import shutil
import subprocess
import tempfile


def add_assumptions(formula, variables, assumptions):
    """Add assumptions to a formula."""
    for n, val in assumptions.items():
        if val:
            formula.append([variables.id(n)])
        else:
            formula.append([-variables.id(n)])


def remap(clauses, offset):
    """Remap clauses of a formula."""
    new_clauses = [[v + offset if v > 0 else v - offset for v in c] for c in clauses]
    return new_clauses


def construct_solver(c, assumptions=None, solver_cls=None, solver_args=None):
    """
    Construct a SAT solver instance with the given circuit and assumptions.

    Parameters
    ----------
    c : Circuit
            Circuit to encode.
    assumptions : dict of str:int
            Assumptions to add to solver.
    solver_cls : pysat.Solver
            The class of solver to use. If None, `Cadical` is used.
    solver_args : dict of str:Any
            Arguments to pass into the solver constructor. For `Glucose`
            solvers, this should include `'incr': True` to set incremental
            mode.

    Returns
    -------
    solver : pysat.Solver
            SAT solver instance.
    variables : pysat.IDPool
            Solver variable mapping.

    """
    if not solver_cls:
        try:
            from pysat.solvers import Cadical153

            solver_cls = Cadical153
        except ImportError:
            try:
                from pysat.solvers import Cadical

                solver_cls = Cadical
            except ImportError as e:
                raise ImportError(
                    "Install 'python-sat' to use satisfiability functionality"
                ) from e

    formula, variables = cnf(c)
    if assumptions:
        for n in assumptions.keys():
            if n not in c:
                raise ValueError(f"Node '{n}' in assumptions is not in circuit")
        add_assumptions(formula, variables, assumptions)

    if not solver_args:
        solver_args = {}
    solver = solver_cls(bootstrap_with=formula, **solver_args)
    return solver, variables


def cnf(c):
    """
    Convert circuit to CNF using the Tseitin transformation.

    Parameters
    ----------
    c : Circuit
            Circuit to transform.

    Returns
    -------
    variables : pysat.IDPool
            Formula variable mapping.
    formula : pysat.CNF
            CNF formula.

    """
    try:
        from pysat.formula import CNF, IDPool
    except ImportError as e:
        raise ImportError(
            "Install 'python-sat' to use satisfiability functionality"
        ) from e
    variables = IDPool()
    formula = CNF()

    for n in c.nodes():
        variables.id(n)
        n_type = c.type(n)
        if n_type in ["and", "or", "xor"] and len(c.fanin(n)) == 1:
            n_type = "buf"
        elif n_type in ["nand", "nor", "xnor"] and len(c.fanin(n)) == 1:
            n_type = "not"

        if n_type == "and":
            for f in c.fanin(n):
                formula.append([-variables.id(n), variables.id(f)])
            formula.append([variables.id(n)] + [-variables.id(f) for f in c.fanin(n)])
        elif n_type == "nand":
            for f in c.fanin(n):
                formula.append([variables.id(n), variables.id(f)])
            formula.append([-variables.id(n)] + [-variables.id(f) for f in c.fanin(n)])
        elif n_type == "or":
            for f in c.fanin(n):
                formula.append([variables.id(n), -variables.id(f)])
            formula.append([-variables.id(n)] + [variables.id(f) for f in c.fanin(n)])
        elif n_type == "nor":
            for f in c.fanin(n):
                formula.append([-variables.id(n), -variables.id(f)])
            formula.append([variables.id(n)] + [variables.id(f) for f in c.fanin(n)])
        elif n_type == "not":
            if c.fanin(n):
                f = c.fanin(n).pop()
                formula.append([variables.id(n), variables.id(f)])
                formula.append([-variables.id(n), -variables.id(f)])
            else:
                # undriven: free variable, but it must appear in the formula
                formula.append([variables.id(n), -variables.id(n)])
        elif n_type in ["buf", "bb_input"]:
            if c.fanin(n):
                f = c.fanin(n).pop()
                formula.append([variables.id(n), -variables.id(f)])
                formula.append([-variables.id(n), variables.id(f)])
            else:
                # undriven: free variable, but it must appear in the formula
                formula.append([variables.id(n), -variables.id(n)])
        elif n_type in ["xor", "xnor"]:
            # break into hierarchical xors
            nets = list(c.fanin(n))

            # xor gen
            def xor_clauses(a, b, c):
                formula.append([-variables.id(c), -variables.id(b), -variables.id(a)])
                formula.append([-variables.id(c), variables.id(b), variables.id(a)])
                formula.append([variables.id(c), -variables.id(b), variables.id(a)])
                formula.append([variables.id(c), variables.id(b), -variables.id(a)])

            while len(nets) > 2:
                # create new net
                new_net = ("xor", nets[-2], nets[-1])
                variables.id(new_net)

                # add sub xors
                xor_clauses(nets[-2], nets[-1], new_net)

                # remove last 2 nets
                nets = nets[:-2]

                # insert before out
                nets.insert(0, new_net)

            # add final xor
            if n_type == "xor":
                xor_clauses(nets[-2], nets[-1], n)
            else:
                # invert xor
                # auxiliary variables are keyed by tuples so that they can never
                # alias a circuit node (node names are strings)
                xor_inv = ("xor_inv", n)
                variables.id(xor_inv)
                xor_clauses(nets[-2], nets[-1], xor_inv)
                formula.append([variables.id(n), variables.id(xor_inv)])
                formula.append([-variables.id(n), -variables.id(xor_inv)])
        elif n_type == "0":
            formula.append([-variables.id(n)])
        elif n_type == "1":
            formula.append([variables.id(n)])
        elif n_type in ["bb_output", "input"]:
            formula.append([variables.id(n), -variables.id(n)])
        else:
            raise ValueError(f"Unknown gate type '{n_type}'")

    return formula, variables


def solve(c, assumptions=None):
    """
    Try to find satisfying assignment with optional assumptions.

    Parameters
    ----------
    c : Circuit
            Input circuit.
    assumptions : dict of str:int
            Nodes to assume True or False.

    Returns
    -------
    False or dict of str:bool
            Result.

    Example
    -------
    >>> import circuitgraph as cg
    >>> c = cg.from_lib('s27')
    >>> cg.sat.solve(c, assumptions={'G17': True, 'n_20': True, 'G6': False})
    False

    """
    solver, variables = construct_solver(c, assumptions)
    if solver.solve():
        model = solver.get_model()
        return {n: model[variables.id(n) - 1] > 0 for n in c.nodes()}
    return False


def approx_model_count(
    c,
    assumptions=None,
    startpoints=None,
    e=None,
    d=None,
    seed=None,
    detach_xor=True,
    use_xor_clauses=False,
    log_file=None,
):
    """
    Approximate the number of solutions to circuit.

    Parameters
    ----------
    c : Circuit
            Input circuit.
    assumptions : dict of str:int
            Nodes to assume True or False.
    startpoints : iter of str
            Startpoints to use for approxmc.
    e : float (>0)
            epsilon of approxmc.
    d : float (0-1)
            delta of approxmc.
    seed: int
            Seed for approxmc.
    detach_xor: bool
            Detatch xor arg for approxmc.
    use_xor_clauses: bool
            If True, parity gates are added as clauses directly using the extended
            DIMACS format supported by approxmc with xor clauses.
    log_file: str
            If specified, approxmc output will be written to this file.

    Returns
    -------
    int
            Estimate.

    """
    try:
        from pysat.formula import IDPool
    except ImportError as err:
        raise ImportError(
            "Install 'python-sat' to use satisfiability functionality"
        ) from err

    if shutil.which("approxmc") is None:
        raise OSError("Install 'approxmc' to use 'approx_model_count'")
    if startpoints is None:
        startpoints = c.startpoints()

    # the circuit name is only decoration of the temporary file names: keep it
    # to characters that are safe in a file name and to a moderate length
    safe_name = re.sub(r"[^A-Za-z0-9_.-]", "_", str(c.name))[:64]

    formula, variables = cnf(c)
    if assumptions:
        for n in assumptions.keys():
            if n not in c:
                raise ValueError(f"Assumption key '{n}' not node in circuit")
        add_assumptions(formula, variables, assumptions)

    # specify sampling set
    enc_inps = " ".join([str(variables.id(n)) for n in startpoints])

    # write dimacs to tmp
    with tempfile.NamedTemporaryFile(
        prefix=f"circuitgraph_approxmc_{safe_name}_clauses", mode="w"
    ) as tmp:
        clause_str = "\n".join(
            " ".join(str(v) for v in c) + " 0" for c in formula.clauses
        )
        dimacs = (
            f"c ind {enc_inps} 0\np cnf {formula.nv} "
            f"{len(formula.clauses)}\n{clause_str}\n"
        )
        if use_xor_clauses and c.filter_type(["xor", "xnor"]):
            # New pool that doesn't have added xor variables
            new_variables = IDPool()
            old_var_to_new_var = {}
            for n in c.nodes():
                old_var_to_new_var[variables.id(n)] = new_variables.id(n)
            new_dimacs = ""
            num_clauses = 0
            # Remove parity clauses
            for line in dimacs.split("\n")[2:]:
                if line.strip():
                    clause = [int(i) for i in line.split()[:-1]]
                    node = variables.obj(abs(clause[0]))
                    # Only add clauses that start with non-parity nodes
                    if node in c and c.type(node) not in ["xor", "xnor"]:
                        num_clauses += 1
                        new_clause = []
                        for var in clause:
                            if var >= 0:
                                new_clause.append(old_var_to_new_var[abs(var)])
                            else:
                                new_clause.append(-old_var_to_new_var[abs(var)])
                        new_clause = " ".join(str(v) for v in new_clause) + " 0"
                        new_dimacs += new_clause + "\n"
            # Add back in parity clauses using new format
            for node in c.filter_type(["xor", "xnor"]):
                num_clauses += 1
                fanin_clause = " ".join(str(new_variables.id(n)) for n in c.fanin(node))
                if c.type(node) == "xor":
                    new_dimacs += f"x{new_variables.id(node)} {fanin_clause} 0\n"
                else:
                    new_dimacs += f"x{new_variables.id(node)} -{fanin_clause} 0\n"
            # Add back any assumptions about parity nodes
            for node, value in assumptions.items():
                if c.type(node) in ["xor", "xnor"]:
                    if value:
                        new_dimacs += f"{new_variables.id(node)} 0\n"
                    else:
                        new_dimacs += f"-{new_variables.id(node)} 0\n"
            # Add back in header
            enc_inps = " ".join([str(new_variables.id(n)) for n in startpoints])
            new_dimacs = (
                f"c ind {enc_inps} 0\np cnf {len(c)} " f"{num_clauses}\n"
            ) + new_dimacs
            dimacs = new_dimacs

        tmp.write(dimacs)
        tmp.flush()

        # run approxmc
        cmd = ["approxmc"]
        if e:
            cmd.append(f"--epsilon={e}")
        if d:
            cmd.append(f"--delta={d}")
        if seed:
            cmd.append(f"--seed={seed}")
        if not detach_xor:
            cmd.append("--detachxor=0")
        cmd.append(tmp.name)
        with open(log_file, "w+") if log_file else tempfile.NamedTemporaryFile(
            prefix=f"circuitgraph_approxmc_{safe_name}_log", mode="w+"
        ) as f:
            subprocess.run(
                cmd,
                stdout=f,
                stderr=f,
                check=True,
                encoding="utf8",
                universal_newlines=True,
            )
            f.seek(0)
            result = f.read()

    # parse results
    m = re.search(r"s mc (\d+)", result)
    if not m:
        raise ValueError(f"approxmc produced unexpected result:\n\n{result}")
    return int(m.group(1))


def model_count(c, assumptions=None):
    """
    Determine the number of solutions to circuit.

    Parameters
    ----------
    c : Circuit
            Input circuit.
    assumptions : dict of str:int
            Nodes to assume True or False.

    Returns
    -------
    int
            Count.

    """
    startpoints = c.startpoints()
    solver, variables = construct_solver(c, assumptions)
    count = 0
    while solver.solve():
        model = solver.get_model()
        solver.add_clause([-model[variables.id(n) - 1] for n in startpoints])
        count += 1

    return count
