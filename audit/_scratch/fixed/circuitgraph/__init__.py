"""
Tools for working with circuits as graphs.

Python package `circuitgraph` provides a data structure for the generation,
manipulation, and evaluation of Boolean circuits. The circuits are represented
in a graph format based on the `networkx` package.

Features include:

- parsing of generic verilog modules
- easy circuit composition
- synthesis interface to Genus and Yosys
- SAT, #SAT, and approx-#SAT solver integration via `pysat` and `approxmc`
- implementations of common circuit transformations

Look at the examples in `circuitgraph.circuit.Circuit` for a quickstart guide.

"""
from circuitgraph.circuit import (
    BlackBox,
    Circuit,
    primitive_gates,
    addable_types,
    supported_types,
)
from circuitgraph.io import (
    generic_flop,
    dc_flops,
    from_file,
    from_lib,
    genus_flops,
    to_file,
)
from circuitgraph.utils import lint, visualize
from circuitgraph import logic, props, sat, tx, utils
