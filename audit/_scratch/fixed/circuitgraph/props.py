"""
Functions for analysis of Boolean and circuit properties.

Examples
--------
>>> import circuitgraph as cg
>>> c = cg.Circuit()
>>> c.add("i0", "input")
'i0'
>>> c.add("i1", "input")
'i1'
>>> c.add("g0", "or", fanin=["i0", "i1"])
'g0'
>>> c.add("g1", "not", fanin=["g0"])
'g1'
>>> cg.props.signal_probability(c, "g0", approx=False)
0.75
>>> cg.props.signal_probability(c, "g1", approx=False)
0.25

"""
from pathlib import Path

import circuitgraph as cg


def influence(c, ns, supergates=False, approx=True, log_dir=None, **kwargs):
    """
    Compute the influences at node(s).

    Parameters
    ----------
    c : Circuit
            Circuit to compute influence for.
    ns : str or list of str
            Node(s) to compute influence for.
    supergates : bool
            If True, break computation into supergates.
    approx : bool
            Compute approximate model count using approxmc.
    log_dir: str or pathlib.Path
            Directory to store approxmc logs in.
    kwargs: Keyword arguments
            Keyword arguments to pass into `approx_model_count`.

    Returns
    -------
    dict of str:float or dict of dict of str:float
            The influence each startpoint has on the node. If multiple nodes
            are specified, a dict mapping each output to its influences.

    """
    if isinstance(ns, str):
        ns = [ns]

    if supergates:
        # Keep track of influences already computed for a given supergate
        # Mapping of supergate outputs to dict mapping inputs to influences
        sg_influences = {}

    all_influences = {}
    for n in ns:
        sp = c.startpoints(n)

        if log_dir:
            log_dir = Path(log_dir)
            log_dir.mkdir(exist_ok=True)

        def mc(circuit, startpoint, endpoints=None):
            i = cg.tx.sensitization_transform(circuit, startpoint, endpoints)
            if approx:
                log_file = None
                if log_dir:
                    log_file = log_dir / f"{s}.approxmc.log"
                    count = cg.sat.approx_model_count(
                        i,
                        {"sat": True},
                        log_file=log_file,
                        **kwargs,
                    )
                else:
                    count = cg.sat.approx_model_count(
                        i,
                        {"sat": True},
                        **kwargs,
                    )
            else:
                count = cg.sat.model_count(i, {"sat": True})
            return count

        influences = {}

        if supergates:
            # Mapping of circuit inputs to the supergates they belong to
            input_map = {}
            c_n = cg.tx.subcircuit(c, c.transitive_fanin(n) | {n})
            c_n.set_output(c_n.outputs(), False)
            c_n.set_output(n)
            supergates = cg.tx.supergates(c_n)
            for sg in supergates:
                # Mapping of supergate inputs to influence on supergate output
                (sg_out,) = sg.outputs()
                if sg_out not in sg_influences:
                    curr_influences = {}
                    for s in sg.startpoints():
                        input_map[s] = sg_out
                        curr_influences[s] = mc(sg, s) / (2 ** len(sg.startpoints()))
                    sg_influences[sg_out] = curr_influences
                else:
                    for s in sg.startpoints():
                        input_map[s] = sg_out

            # Multiply influences along each path
            for s in sp:
                infl = 1
                curr_node = s
                while curr_node != n:
                    sg_out = input_map[curr_node]
                    infl *= sg_influences[sg_out][curr_node]
                    curr_node = sg_out
                influences[s] = infl
        else:
            for s in sp:
                # create influence circuit
                influences[s] = mc(c, s, n) / (2 ** len(sp))

        all_influences[n] = influences

    if len(all_influences) == 1:
        (all_influences,) = all_influences.values()
    return all_influences


def avg_sensitivity(c, ns, supergates=False, approx=True, log_dir=None, **kwargs):
    """
    Calculate the average sensitivity node(s) `ns`.

    Return the average sensitivity (equal to total influence) of node(s) with
    respect to startpoints.

    Parameters
    ----------
    c: Circuit
            Circuit to compute average sensitivity for.
    ns : str or list of str
            Node(s) to compute average sensitivity for.
    supergates: bool
            If True, break the sensitivity computation up into supergates.
    approx : bool
            Compute approximate model count using approxmc.
    log_dir: str or pathlib.Path
            Directory to store approxmc logs in.
    kwargs: Keyword arguments
            Keyword arguments to pass into `approx_model_count`.

    Returns
    -------
    float or dict of str:float
            Average sensitivity of node `ns` or dict mapping nodes in set `ns`
            to average sensitivities.

    """
    all_influences = influence(
        c, ns, supergates=supergates, approx=approx, log_dir=log_dir, **kwargs
    )

    if isinstance(ns, str):
        return sum(all_influences.values())

    total_influences = {}
    for k, v in all_influences.items():
        total_influences[k] = sum(v.values())
    return total_influences


def sensitivity(c, n):
    """
    Calculate the sensitivity of node `n` with respect to its startpoints.

    Parameters
    ----------
    c: Circuit
            Circuit to compute sensitivity for
    n : str
            Node to compute sensitivity for.

    Returns
    -------
    int
            Sensitivity of node n.

    """
    sp = c.startpoints(n)
    if n in sp:
        return 1

    sen = len(sp)
    s = cg.tx.sensitivity_transform(c, n)
    vs = cg.utils.int_to_bin(sen, cg.utils.clog2(len(sp)), True)
    while not cg.sat.solve(s, {f"sen_out_{i}": v for i, v in enumerate(vs)}):
        sen -= 1
        vs = cg.utils.int_to_bin(sen, cg.utils.clog2(len(sp)), True)

    return sen


def sensitize(c, n, assumptions=None):
    """
    Find an input that sensitizes `n` to an endpoint under assumptions.

    Parameters
    ----------
    c: Circuit
            Circuit to compute sensitivity for
    n : str
            Node to compute sensitivity for.
    assumptions : dict of str:bool
            Assumptions for Circuit.

    Returns
    -------
    dict of str:bool
            Input value.

    """
    # setup circuit
    s = cg.tx.sensitization_transform(c, n)

    if not assumptions:
        assumptions = {}

    # find a sensitizing input
    result = cg.sat.solve(s, {"sat": True, **assumptions})
    if not result:
        return None
    return {g: result[g] for g in s.startpoints()}


def signal_probability(c, n, approx=True, **kwargs):
    """
    Determine the (approximate) probability of node `n` being true.

    Parameters
    ----------
    c : Circuit
            Input circuit.
    n : str
            Node to determine probability for.
    approx : bool
            Use approximate model counting through approxmc.
            This is the default behavior, and turned it off
            can make computation time prohibitively expensive.
    kwargs: Keyword arguments
            Keyword arguments to pass into `approx_model_count`.

    Returns
    -------
    float
            Probability.

    """
    # get subcircuit ending at node
    subc = cg.tx.subcircuit(c, {n} | c.transitive_fanin(n))

    # get count with node true and other inputs fixed
    if approx:
        count = cg.sat.approx_model_count(subc, {n: True}, **kwargs)
    else:
        count = cg.sat.model_count(subc, {n: True})

    return count / (2 ** len(subc.startpoints()))


def levelize(c):
    """
    Levelize a circuit.

    Compute the logical level of each gate in the circuit.

    Parameters
    ----------
    c: Circuit
            Input circuit.

    Returns
    -------
    dict of str:int
            Mapping of gate names to levels.
    """
    if c.is_cyclic():
        raise ValueError("Cannot levelize cyclic circuit")

    levels = {n: 0 for n in c.startpoints() | c.filter_type(("0", "1", "x"))}
    for n in c.topo_sort():
        if n in levels:
            continue
        levels[n] = max(levels[fi] for fi in c.fanin(n)) + 1
    return levels
