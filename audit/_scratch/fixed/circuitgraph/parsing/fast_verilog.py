"""
Utils for parsing verilog with regex.

Faster than Lark parsing for large netlists, but less safe and more
restrictive.

"""
import re
from collections import defaultdict

import networkx as nx

from circuitgraph import Circuit, primitive_gates


def fast_parse_verilog_netlist(netlist, blackboxes):
    """
    Parse a verilog netlist quickly but with some restrictions.

    Can speed up parsing on very large netlists by making a handful of
    assumptions. It is much safer to use `parse_verilog_netlist`. This
    function should only be used if necessary.

    The input netlist must conform to the following rules:
        - Only one module definition is present
        - There are no comments
        - Assign statements must have a single net as the LHS, and the RHS
          must be a constant
        - The only constants that may be used are `1'b0` and `1'b1` (or h/d)
        - Primitive gates can only have one output
        - Instantiations must be named.
        - Only one instantation per line (e.g. `buf b1(a, b) b2(c, d);` is
          not allowed)
        - No expressions (e.g. `buf (a, b & c);` is not allowed)
        - No escaped identifiers

    The code does not overtly check that these rules are satisfied, and if
    they are not this function may still return a malformed Circuit object.
    It is up to the caller of the function to assure that these rules are
    followed.

    If an output is undriven, a driver for the output will still be added to
    the circuit, which is a discrepancy with `parse_verilog_netlist` (in which
    no output drive will be added).

    Note that thorough error checking that is done in `parse_verilog_netlist`
    is skipped in this function (e.g. checking if nets are declared as wires,
    checking if the portlist matches the input/output declarations, etc.).

    Note also that wires that are declared but not used will not be added to
    the circuit.

    Parameters
    ----------
    netlist: str
            Verilog code.
    blackboxes: seq of BlackBox
            Blackboxes in module.

    Returns
    -------
    Circuit
            Parsed circuit.

    """
    regex = r"module\s+(.+?)\s*\(.*?\);"
    m = re.search(regex, netlist, re.DOTALL)
    name = m.group(1)
    module = netlist[m.end() :]

    regex = "endmodule"
    m = re.search(regex, netlist, re.DOTALL)
    module = module[: m.start()]

    # create graph
    g = nx.DiGraph()

    # parse io
    # the keyword, not the tail of an identifier such as `n_input`
    regex = r"(?<![\w$])(input)\s(.+?);"
    inputs = set()
    for _, net_str in re.findall(regex, module, re.DOTALL):
        nets = net_str.split(",")
        for net in nets:
            inputs.add(net.strip())
    g.add_nodes_from(inputs, type="input")

    # create constants, (will be removed if unused); their names must not
    # coincide with any net of the design
    identifiers = set(re.findall(r"[a-zA-Z_][a-zA-Z\d_$]*", module))
    tie_0 = "tie0"
    i = 0
    while tie_0 in identifiers:
        tie_0 = f"tie0_{i}"
        i += 1
    tie_1 = "tie1"
    i = 0
    while tie_1 in identifiers:
        tie_1 = f"tie1_{i}"
        i += 1
    g.add_node(tie_0, type="0")
    g.add_node(tie_1, type="1")

    # parse insts
    regex = (
        r"([a-zA-Z_][a-zA-Z\d_$]*)\s+([a-zA-Z_][a-zA-Z\d_$]*)\s*\(([^;]+)\)\s*;"
    )

    all_nets = defaultdict(list)
    all_edges = []
    blackboxes_to_add = {}
    for gate, inst, net_str in re.findall(regex, module, re.DOTALL):

        # parse generics
        if gate in primitive_gates:
            # parse nets
            nets = [n.strip() for n in net_str.split(",")]

            # replace constants
            nets = [tie_0 if n == "1'b0" else tie_1 if n == "1'b1" else n for n in nets]

            all_nets[gate].append(nets[0])
            all_edges += [(i, nets[0]) for i in nets[1:]]
        # parse non-generics
        else:
            # get blackbox definition
            try:
                bb = next(bb for bb in blackboxes if bb.name == gate)
            except StopIteration as e:
                raise ValueError(f"blackbox {gate} not defined") from e

            # parse pins
            all_nets["bb_input"] += [f"{inst}.{n}" for n in bb.inputs()]
            all_nets["bb_output"] += [f"{inst}.{n}" for n in bb.outputs()]

            # a pin name ends at its "(", a net name at its ")": connection lists may
            # be written without blanks (".D(d),.Q(q)")
            regex = r"\.\s*([^\s(]+)\s*\(\s*([^\s)]+)\s*\)"
            for pin, net in re.findall(regex, net_str):
                # replace constants
                if net == "1'b1":
                    net = tie_1
                elif net == "1'b0":
                    net = tie_0

                if pin in bb.inputs():
                    all_edges.append((net, f"{inst}.{pin}"))
                elif pin in bb.outputs():
                    # add intermediate net for outputs
                    all_nets["buf"].append(net)
                    all_edges.append((f"{inst}.{pin}", net))
                else:
                    raise ValueError(f"node {pin} not defined for blackbox {gate}")

            blackboxes_to_add[inst] = bb

    regex = (
        r"assign\s+([a-zA-Z_][a-zA-Z\d_$]*)\s*=\s*([a-zA-Z\d_][a-zA-Z\d_$']*)\s*;"
    )
    for n0, n1 in re.findall(regex, module):
        all_nets["buf"].append(n0)
        if n1 in ["1'b0", "1'h0", "1'd0"]:
            all_edges.append((tie_0, n0))
        elif n1 in ["1'b1", "1'h1", "1'd1"]:
            all_edges.append((tie_1, n0))
        else:
            all_edges.append((n1, n0))

    for k, v in all_nets.items():
        g.add_nodes_from(v, type=k, output=False)
    g.add_edges_from(all_edges)

    regex = r"(?<![\w$])(output)\s(.+?);"
    for _, net_str in re.findall(regex, module, re.DOTALL):
        nets = net_str.split(",")
        for net in nets:
            g.nodes[net.strip()]["output"] = True

    try:
        next(g.successors(tie_0))
    except StopIteration:
        g.remove_node(tie_0)

    try:
        next(g.successors(tie_1))
    except StopIteration:
        g.remove_node(tie_1)

    return Circuit(name=name, graph=g, blackboxes=blackboxes_to_add)
