"""Utils for parsing verilog with Lark."""
import re
from pathlib import Path

from lark import Lark, Transformer

from circuitgraph import Circuit, primitive_gates


def _get_context_window(text, index):
    """
    Find the line containing an index.

    Parameters
    ----------
    text: str
            The text to search in
    index: int
            The index to search around

    Returns
    -------
    str
            The line that `index` is contained in.

    """
    previous_newline = max(0, text.rfind("\n", 0, index))
    next_newline = text.find("\n", index)
    context = text[previous_newline:next_newline]
    context += "\n" + " " * (index - previous_newline - 1) + "^"
    return context


class VerilogParsingError(Exception):
    """Raised if there is an issue parsing the verilog."""

    def __init__(self, message, token, text):
        super().__init__()
        self.message = message
        self.token = token
        self.line = getattr(token, "line", "?")
        self.column = getattr(token, "column", "?")
        index = getattr(token, "pos_in_stream", None)
        if index:
            self.context = _get_context_window(text, index)
        else:
            self.context = "?"

    def __str__(self):
        """Print the line and column of the error."""
        self.message += f" (line {self.line}, column {self.column}):\n"
        self.message += self.context
        return self.message


class VerilogParsingWarning(Exception):
    """Potentially raised if there is a warning parsing verilog."""


class _VerilogCircuitGraphTransformer(Transformer):
    """A lark.Transformer for parsing a verilog netlist."""

    def __init__(self, text, blackboxes, warnings=False, error_on_warning=False):
        """
        Initialize a new transformer.

        Parameters
        ----------
        text: str
                The netlist that the transformer will be used on, used for
                error messages.
        blackboxes: list of circuitgraph.BlackBox
                The blackboxes present in the netlist that will be parsed.
        warnings: bool
                If True, warnings about unused nets will be printed.
        error_on_warning: bool
                If True, unused nets will cause raise `VerilogParsingWarning`
                exceptions.

        """
        super().__init__()
        self.c = Circuit()
        self.text = text
        self.blackboxes = blackboxes
        self.warnings = warnings
        self.error_on_warning = error_on_warning
        # Every identifier in the netlist: names synthesized by the parser (constant
        # nodes, expression temporaries) must never coincide with a net of the design
        self.identifiers = set(re.findall(r"\\\S+|[A-Za-z_][A-Za-z0-9_$]*", text))
        self.tie_0 = self.c.add(self.c.uid("tie_0", self.identifiers), "0")
        self.tie_1 = self.c.add(self.c.uid("tie_1", self.identifiers), "1")
        self.tie_x = self.c.add(self.c.uid("tie_x", self.identifiers), "x")
        self.gate_expressions = set()
        self.io = set()
        self.inputs = set()
        self.outputs = set()
        self.wires = set()

    # Helper functions
    def add_node(self, n, node_type, fanin=None, fanout=None, uid=False):
        """So that nodes are of type `str`, not `lark.Token`."""
        if not fanin:
            fanin = []
        elif type(fanin) not in [list, set]:
            fanin = [fanin]
        if not fanout:
            fanout = []
        elif type(fanout) not in [list, set]:
            fanout = [fanout]

        fanin = [str(i) for i in fanin]
        fanout = [str(i) for i in fanout]
        node_type = str(node_type)
        n = str(n)
        if uid:
            n = self.c.uid(n, self.identifiers)

        return self.c.add(
            n,
            node_type,
            fanin=fanin,
            fanout=fanout,
            add_connected_nodes=True,
            allow_redefinition=True,
        )

    def add_blackbox(self, blackbox, name, connections=None):
        if not connections:
            connections = {}
        formatted_connections = {}
        for key in connections:
            formatted_connections[str(key)] = str(connections[key])
            if str(connections[key]) not in self.c:
                self.c.add(str(connections[key]), "buf")
        self.c.add_blackbox(blackbox, str(name), formatted_connections)

    def warn(self, message):
        if self.error_on_warning:
            raise VerilogParsingWarning(message)
        print(f"Warning: {message}")

    def check_for_warnings(self):
        for wire in self.wires:
            if wire not in self.c.nodes():
                self.warn(f"{wire} declared as wire but isn't connected.")

        for n in self.c.nodes():
            if (
                self.c.type(n) != "bb_input"
                and not self.c.is_output(n)
                and not self.c.fanout(n)
            ):
                self.warn(f"{n} doesn't drive any nets.")
            elif self.c.type(n) not in [
                "input",
                "0",
                "1",
                "bb_output",
            ] and not self.c.fanin(n):
                self.warn(f"{n} doesn't have any drivers.")

    # 1. Source text
    def start(self, description):
        return description

    def module(self, module_name_and_list_of_ports_and_module_items):
        self.c.name = str(module_name_and_list_of_ports_and_module_items[0])

        # Check if ports list matches with inputs and outputs
        if not self.inputs <= self.io:
            i = (self.inputs - self.io).pop()
            raise VerilogParsingError(
                f"{i} declared as output but not in port list", i, self.text
            )
        if not self.outputs <= self.io:
            o = (self.outputs - self.io).pop()
            raise VerilogParsingError(
                f"{o} declared as output but not in port list", o, self.text
            )
        if not self.io <= (self.inputs | self.outputs):
            v = (self.io - (self.inputs | self.outputs)).pop()
            raise VerilogParsingError(
                f"{v} in port list but was not declared as input or output",
                v,
                self.text,
            )

        # Relabel outputs using drivers
        for o in self.outputs:
            self.c.set_output(str(o))

        # Remove tie_0, tie_1 if not used
        if not self.c.fanout(self.tie_0):
            self.c.remove(self.tie_0)
        if not self.c.fanout(self.tie_1):
            self.c.remove(self.tie_1)
        if not self.c.fanout(self.tie_x):
            self.c.remove(self.tie_x)

        # Check for warnings
        if self.warnings:
            self.check_for_warnings()

        return self.c

    def list_of_ports(self, ports):
        for port in ports:
            self.io.add(port)

    # 2. Declarations
    def input_declaration(self, list_of_variables):
        [list_of_variables] = list_of_variables
        self.inputs.update(list_of_variables)
        for variable in list_of_variables:
            self.add_node(variable, "input")

    def output_declaration(self, list_of_variables):
        [list_of_variables] = list_of_variables
        self.outputs.update(list_of_variables)

    def net_declaration(self, list_of_variables):
        [list_of_variables] = list_of_variables
        self.wires.update(list_of_variables)

    def list_of_variables(self, identifiers):
        return identifiers

    # 3. Primitive Instances
    # These are merged with module isntantiations

    # 4. Module Instantiations
    def module_instantiation(self, name_of_module_and_module_instances):
        name_of_module = name_of_module_and_module_instances[0]
        module_instances = name_of_module_and_module_instances[1:]
        # Check if this is a primitive gate
        if name_of_module in primitive_gates:
            for name, ports in module_instances:
                if isinstance(ports, dict):
                    raise VerilogParsingError(
                        "Primitive gates cannot use named port connections",
                        name,
                        self.text,
                    )
                self.add_node(ports[0], name_of_module, fanin=ports[1:])
        # Otherwise, try to parse as blackbox
        else:
            try:
                bb = {i.name: i for i in self.blackboxes}[name_of_module]
            except KeyError as e:
                raise VerilogParsingError(
                    f"Blackbox {name_of_module} not in list of defined blackboxes.",
                    name_of_module,
                    self.text,
                ) from e
            for name, connections in module_instances:
                if not isinstance(connections, dict):
                    raise VerilogParsingError(
                        "Blackbox instantiations must use named port connections",
                        name,
                        self.text,
                    )
                for output in bb.outputs():
                    if output in connections:
                        self.add_node(connections[output], "buf")
                self.add_blackbox(bb, name, connections)

    def module_instance(self, name_of_instance_and_list_of_module_connecetions):
        (
            name_of_instance,
            list_of_module_connecetions,
        ) = name_of_instance_and_list_of_module_connecetions
        return (name_of_instance, list_of_module_connecetions)

    def list_of_module_connections(self, module_port_connections):
        if isinstance(module_port_connections[0], dict):
            d = {}
            for m in module_port_connections:
                d.update(m)
            return d
        return module_port_connections

    def module_port_connection(self, expression):
        return expression[0]

    def named_port_connection(self, identifier_and_expression):
        if len(identifier_and_expression) == 1:
            # unconnected port, e.g. `.q()`
            return {}
        [identifier, expression] = identifier_and_expression
        return {identifier: expression}

    # 5. Behavioral Statements
    def assignment(self, lvalue_and_expression):
        [lvalue, expression] = lvalue_and_expression
        if lvalue not in [self.tie_0, self.tie_1, self.tie_x]:
            if expression in self.gate_expressions:
                self.c.relabel({expression: str(lvalue)})
            else:
                self.add_node(lvalue, "buf", fanin=expression)

    # 6. Specify Section

    # 7. Expressions
    def expression(self, s):
        return s[0]

    def constant_zero(self, value):
        return self.tie_0

    def constant_one(self, value):
        return self.tie_1

    def constant_x(self, value):
        return self.tie_x

    def not_gate(self, items):
        io = "_".join(items)
        node = self.add_node(f"not_{io}", "not", fanin=items[0], uid=True)
        self.gate_expressions.add(node)
        return node

    def xor_gate(self, items):
        io = "_".join(items)
        node = self.add_node(f"xor_{io}", "xor", fanin=[items[0], items[1]], uid=True)
        self.gate_expressions.add(node)
        return node

    def xnor_gate(self, items):
        io = "_".join(items)
        node = self.add_node(f"xnor_{io}", "xnor", fanin=[items[0], items[1]], uid=True)
        self.gate_expressions.add(node)
        return node

    def and_gate(self, items):
        io = "_".join(items)
        node = self.add_node(f"and_{io}", "and", fanin=[items[0], items[1]], uid=True)
        self.gate_expressions.add(node)
        return node

    def or_gate(self, items):
        io = "_".join(items)
        node = self.add_node(f"or_{io}", "or", fanin=[items[0], items[1]], uid=True)
        self.gate_expressions.add(node)
        return node

    def ternary(self, items):
        io = "_".join(items)
        n = self.add_node(f"mux_n_{io}", "not", fanin=items[0], uid=True)
        a0 = self.add_node(f"mux_a0_{io}", "and", fanin=[n, items[2]], uid=True)
        a1 = self.add_node(f"mux_a1_{io}", "and", fanin=[items[0], items[1]], uid=True)
        node = self.add_node(f"mux_o_{io}", "or", fanin=[a0, a1], uid=True)
        self.gate_expressions.add(node)
        return node


def parse_verilog_netlist(netlist, blackboxes, warnings=False, error_on_warning=False):
    """
    Parse a verilog netlist into a Circuit.

    Parameters
    ----------
    netlist: str
            The verilog netlist to parse.
    blackboxes: list of circuitgraph.BlackBox
            The blackboxes present in the netlist.
    warnings: bool
            If True, warnings about unused nets will be printed.
    error_on_warning: bool
            If True, unused nets will cause raise `VerilogParsingWarning`
            exceptions.

    Returns
    -------
    circuitgraph.Circuit
            The parsed circuit.

    """
    transformer = _VerilogCircuitGraphTransformer(
        netlist, blackboxes, warnings, error_on_warning
    )
    with open(Path(__file__).parent.absolute() / "verilog.lark") as f:
        parser = Lark(f, parser="lalr", transformer=transformer)
    [c] = parser.parse(netlist)
    return c
