"""Utilities for parsing netlists."""
from circuitgraph.parsing.fast_verilog import fast_parse_verilog_netlist
from circuitgraph.parsing.verilog import (
    parse_verilog_netlist,
    VerilogParsingWarning,
    VerilogParsingError,
)
