import random, sys, os, traceback
import circuitgraph as cg
from oracle import consistent_count
os.environ["PATH"] = os.path.join(os.path.dirname(os.path.abspath(__file__)),"bin")+":"+os.environ["PATH"]

NAMES = ["a","b","c","xor_a_b","xor_inv_g","sat","$x","_y","\\esc[0]","module","endmodule","input","output","xor","g0","g_0","tie0","tie1","n$1","A","B_","q","d","clk","wire","assign","i0","i1","o","out","s","cg_unroll","x_not","a_not"]
def rand_circuit(rng, cyclic=False, bb=True):
    c = cg.Circuit(name=rng.choice(["c","m$1","top"]))
    names = rng.sample(NAMES, len(NAMES))
    nin = rng.randint(0,4)
    nodes=[]
    for i in range(nin):
        nodes.append(c.add(names.pop(),"input", output=rng.random()<0.2))
    for i in range(rng.randint(0,2)):
        nodes.append(c.add(names.pop(), rng.choice(["0","1"]), output=rng.random()<0.3))
    if bb and rng.random()<0.5:
        nbb = rng.randint(1,2)
        for k in range(nbb):
            ins=[f"i{j}" for j in range(rng.randint(0,2))]
            outs=[f"o{j}" for j in range(rng.randint(0,2))]
            if not nodes and ins: ins=[]
            B = cg.BlackBox("bbt", ins, outs)
            inst=names.pop()
            if "." in inst: continue
            conns={}
            for p in ins: conns[p]=rng.choice(nodes)
            for p in outs:
                b=c.add(names.pop(),"buf"); conns[p]=b; nodes.append(b)
            c.add_blackbox(B, inst, conns)
    if not nodes:
        nodes.append(c.add(names.pop(),"input"))
    for i in range(rng.randint(0,7)):
        t = rng.choice(cg.circuit.primitive_gates)
        k = 1 if t in ("buf","not") else rng.randint(1,4)
        fi = [rng.choice(nodes) for _ in range(k)]
        nodes.append(c.add(names.pop(), t, fanin=list(set(fi)), output=rng.random()<0.3))
    if cyclic:
        gates=[n for n in c.nodes() if c.type(n) in ("and","or","xor","nand","nor","xnor")]
        if gates:
            g=rng.choice(gates); src=rng.choice(list(c.nodes()-c.filter_type("bb_input")))
            try: c.connect(src,g)
            except ValueError: pass
    cg.lint(c)
    return c

def check(seed):
    rng=random.Random(seed)
    c=rand_circuit(rng, cyclic=rng.random()<0.2)
    allnodes=sorted(c.nodes())
    k=rng.randint(0,3)
    ass={n: rng.choice([True,False,0,1]) for n in rng.sample(allnodes,min(k,len(allnodes)))}
    if len(c.startpoints())+0>12: return
    if len(c.nodes())>18: return
    exp=consistent_count(c,ass)
    got=cg.sat.model_count(c, ass if ass or rng.random()<0.5 else None)
    assert exp==got,(seed,"mc",exp,got,ass)
    got2=cg.sat.approx_model_count(c, ass)
    assert exp==got2,(seed,"amc",exp,got2,ass)
    for n in allnodes:
        cone={n}|c.transitive_fanin(n)
        if any(c.type(m) in ("bb_input","bb_output") for m in cone):
            continue
        sp=[m for m in cone if c.type(m)=="input"]
        e=consistent_count(c,{n:True},nodes=cone)/2**len(sp)
        g=cg.props.signal_probability(c,n,approx=False)
        assert e==g,(seed,"sp",n,e,g)
        g=cg.props.signal_probability(c,n,approx=True)
        assert e==g,(seed,"spa",n,e,g)

if __name__=="__main__":
    a,b=int(sys.argv[1]),int(sys.argv[2])
    for s in range(a,b):
        try: check(s)
        except Exception as e:
            print("FAIL",s,repr(e)); traceback.print_exc(); break
    else: print("all ok")
