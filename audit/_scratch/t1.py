from h import *
random.seed(int(sys.argv[1]) if len(sys.argv)>1 else 0)
names=['a','a_X','a_X_0','a_X_X','b','b_is_0','b_is_1','b_not_x','g_x_in_fi','g','g_0_not_in_fi','g_1_not_in_fi','\\a$','module','x_X','X','_X','__X','g_X_1','a_is_0_0','a_X_is_0']
for it in range(300):
    c=cg.Circuit()
    nm=random.sample(names,random.randint(2,8))
    ni=random.randint(1,3)
    nodes=[]
    for i,n in enumerate(nm):
        if i<ni: c.add(n,'input',output=random.random()<.2)
        else:
            t=random.choice(['and','nand','or','nor','xor','xnor','buf','not','0','1'])
            if t in '01': c.add(n,t,output=random.random()<.5)
            elif t in ('buf','not'): c.add(n,t,fanin=[random.choice(nodes)],output=random.random()<.5)
            else: c.add(n,t,fanin=random.sample(nodes,random.randint(1,min(4,len(nodes)))),output=random.random()<.5)
        nodes.append(n)
    try:
        check(c, use_sat=(it%10==0))
    except Exception as e:
        print('FAIL',repr(e)); print(c.graph.nodes(data=True)); print(c.graph.edges()); break
else: print('ok')
