import itertools, random, sys
import circuitgraph as cg
import networkx as nx

def ev(t, fi):
    if t=='and': return int(all(fi))
    if t=='nand': return int(not all(fi))
    if t=='or': return int(any(fi))
    if t=='nor': return int(not any(fi))
    if t=='xor': return sum(fi)%2
    if t=='xnor': return 1-sum(fi)%2
    if t=='buf': return fi[0]
    if t=='not': return 1-fi[0]
    if t=='0': return 0
    if t=='1': return 1
    raise Exception(t)

def simulate(c, inp):
    vals={}
    for n in nx.topological_sort(c.graph):
        t=c.type(n)
        if t=='input': vals[n]=inp[n]
        else: vals[n]=ev(t,[vals[p] for p in c.graph.predecessors(n)])
    return vals

def kleene_gate(t, fi):
    # fi list of 0/1/'X'
    xs=[i for i,v in enumerate(fi) if v=='X']
    if not xs: return ev(t,fi)
    res=set()
    for combo in itertools.product([0,1],repeat=len(xs)):
        f=list(fi)
        for i,v in zip(xs,combo): f[i]=v
        res.add(ev(t,f))
    return res.pop() if len(res)==1 else 'X'

def kleene(c, inp):
    vals={}
    for n in nx.topological_sort(c.graph):
        t=c.type(n)
        if t=='input': vals[n]=inp[n]
        else: vals[n]=kleene_gate(t,[vals[p] for p in c.graph.predecessors(n)])
    return vals

def check(c, use_sat=False):
    cg.lint(c)
    t,m=cg.tx.ternary(c)
    cg.lint(t)
    assert set(m)==set(c.nodes()), (set(m), c.nodes())
    assert len(set(m.values()))==len(m)
    for n in c.nodes():
        assert c.type(n)==t.type(n) and c.fanin(n)==t.fanin(n), n
        assert m[n] in t
    ins=sorted(c.inputs())
    assert t.inputs()==set(ins)|{m[i] for i in ins}, (t.inputs(), ins)
    for pat in itertools.product([0,1,'X'],repeat=len(ins)):
        k=kleene(c,dict(zip(ins,pat)))
        xs=[i for i,v in zip(ins,pat) if v=='X']
        for combo in itertools.product([0,1],repeat=len(xs)):
            a={}
            for i,v in zip(ins,pat):
                a[m[i]]=int(v=='X')
                if v!='X': a[i]=v
            for i,v in zip(xs,combo): a[i]=v
            vals=simulate(t,a)
            if use_sat:
                r=cg.sat.solve(t,{k_:bool(v) for k_,v in a.items()})
                assert r, "unsat"
                for n in t.nodes(): assert int(r[n])==vals[n],(n,)
            for n in c.nodes():
                if k[n]=='X':
                    assert vals[m[n]]==1,(n,pat,combo,'expected X')
                else:
                    assert vals[m[n]]==0,(n,pat,combo,'expected nonX')
                    assert vals[n]==k[n],(n,pat,combo,'value')
    return t,m
