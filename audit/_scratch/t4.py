from h import *
import time
random.seed(5)
def rcheck(c, npat=30):
    t,m=cg.tx.ternary(c)
    cg.lint(t)
    ins=sorted(c.inputs())
    for _ in range(npat):
        px=random.random()
        pat=[('X' if random.random()<px*0.3 else random.randint(0,1)) for i in ins]
        k=kleene(c,dict(zip(ins,pat)))
        a={}
        for i,v in zip(ins,pat):
            a[m[i]]=int(v=='X'); a[i]=random.randint(0,1) if v=='X' else v
        vals=simulate(t,a)
        for n in c.nodes():
            if k[n]=='X': assert vals[m[n]]==1,n
            else: assert vals[m[n]]==0 and vals[n]==k[n],n
for name in ['c17','c432','c880','c1908','s27','c6288']:
    try:
        c=cg.from_lib(name)
    except Exception as e:
        print(name,'load',repr(e)); continue
    if c.blackboxes:
        print(name,'bb'); continue
    t0=time.time(); rcheck(c,10); print(name,'ok',len(c),time.time()-t0)
# high fanout
c=cg.Circuit()
c.add('a','input'); c.add('b','input')
for i in range(60):
    c.add(f'g{i}', random.choice(['and','nand','or','nor']), fanin=['a','b'])
c.add('big','and',fanin=[f'g{i}' for i in range(60)]+['a'])
rcheck(c,50); print('fanout ok')
# long chain
c=cg.Circuit(); c.add('a','input'); prev='a'
for i in range(5000):
    prev=c.add(f'n{i}',random.choice(['buf','not']),fanin=prev)
t,m=cg.tx.ternary(c); print('chain ok',len(t))
