"""strip_blackboxes silently merges two blackbox pins whose flattened names coincide.

instance 'u'   pin 'a_b'  -> node 'u.a_b'  -> 'u_a_b'
instance 'u_a' pin 'b'    -> node 'u_a.b'  -> 'u_a_b'

Expected: either four distinct io nodes for the four pins, or a ValueError
("Overlapping blackbox name", the refusal strip_blackboxes already uses when a
flattened pin name hits an ordinary net).  Exit 1 if pins are merged.
"""
import sys

import circuitgraph as cg


def build(second_is_output):
    c = cg.Circuit("top")
    c.add("x", "input")
    c.add("y", "input")
    c.add("o1", "buf", output=True)
    c.add("o2", "buf", output=True)
    c.add_blackbox(cg.BlackBox("t1", ["a_b"], ["q"]), "u", {"a_b": "x", "q": "o1"})
    if second_is_output:
        # u_a.b is a bb_output driving the pre-existing buffer o2
        c.add_blackbox(cg.BlackBox("t2", ["d"], ["b"]), "u_a", {"d": "y", "b": "o2"})
    else:
        c.add_blackbox(cg.BlackBox("t2", ["b"], ["q"]), "u_a", {"b": "y", "q": "o2"})
    cg.lint(c)  # the parent is a perfectly regular circuit
    return c


def check(second_is_output):
    c = build(second_is_output)
    pins = sorted(c.filter_type(["bb_input", "bb_output"]))
    print(f"parent pins ({len(pins)}): {pins}")
    try:
        s = cg.tx.strip_blackboxes(c)
    except ValueError as e:
        print(f"  refused with ValueError: {e}  -> fine")
        return True
    new_io = (s.inputs() - c.inputs()) | (s.outputs() - c.outputs())
    print(f"  expected {len(pins)} exposed pins (or a ValueError)")
    print(f"  got      {len(new_io)} exposed pins: {sorted(new_io)}")
    ok = len(new_io) == len(pins)
    for n in sorted(s.nodes()):
        fi = sorted(s.fanin(n))
        t = s.type(n)
        if t in ("buf", "not", "input") and len(fi) > (0 if t == "input" else 1):
            print(f"  node {n!r} of type {t!r} now has fanin {fi}")
            ok = False
    if second_is_output and "u_a_b" in s and "o2" in s:
        # o2 was driven by the free blackbox output u_a.b; it must still be
        # driven by a free input, not by parent logic
        drv = sorted(s.fanin("o2"))
        free = all(s.type(d) == "input" and not s.fanin(d) for d in drv)
        print(f"  o2 is driven by {drv}; free input: {free}")
        ok = ok and free
    return ok


results = [check(False), check(True)]
if all(results):
    print("OK: pins are kept apart (or the call is refused)")
    sys.exit(0)
print("DEFECT: strip_blackboxes merged distinct blackbox pins into one node")
sys.exit(1)
