"""C04_1: miter() with an empty set of compared endpoints leaves `sat` undriven.

Two lint-clean circuits computing the same function but naming their output
differently ("y" vs "out") share no endpoint, so the default choice of compared
endpoints ("those present in both") is empty.  No compared endpoint can differ,
hence `sat` must be 0 for every valuation and solve(m, {"sat": True}) must be
False (a documented ValueError saying that nothing can be compared would be
acceptable as well).  Instead `sat` is a buffer without any driver, i.e. a free
variable, and the equivalence check reports a "difference".
"""
import sys

import circuitgraph as cg
from circuitgraph.sat import solve


def build(out):
    c = cg.Circuit(name="c_" + out)
    c.add("a", "input")
    c.add("b", "input")
    c.add(out, "and", fanin=["a", "b"], output=True)
    return c


def run(label, c0, c1):
    """Return True when the defect shows."""
    try:
        m = cg.tx.miter(c0, c1) if c1 is not None else cg.tx.miter(c0)
    except ValueError as e:
        print(f"{label}: miter refused with ValueError({e}) - acceptable")
        return False
    drivers = m.fanin("sat")
    res = solve(m, {"sat": True})
    print(f"{label}: type(sat)={m.type('sat')!r} fanin(sat)={sorted(drivers)}")
    print("   expected: solve(m, {'sat': True}) is False (no compared endpoint can differ)")
    print(f"   got     : {res}")
    return res is not False


bad = False
# 1. two equivalent circuits whose outputs are named differently
bad |= run("disjoint output names", build("y"), build("out"))

# 2. self-miter of a lint-clean circuit that has no node marked as output
c = build("y")
c.set_output("y", False)
cg.lint(c)
bad |= run("self-miter, circuit without outputs", c, None)

if bad:
    print("DEFECT PRESENT: `sat` is a free signal when nothing is compared")
    sys.exit(1)
print("defect absent")
sys.exit(0)
