"""C13 - generated arithmetic blocks compute the arithmetic they name."""
import random

from rv.oracle import sim
from rv.oracle.sim import Net
from rv.props._util import own_lint

RULE = (
    "logic.adder/mux/popcount/half_adder/full_adder for widths 1..16 and powers of two +-1 up to 64 (thorough 128): all input vectors "
    "when the block has <=12 inputs, otherwise 40 (thorough 200) random vectors per case incl. all-0/all-1/one-hot; outputs are read from the reference "
    "simulator and compared with Python integer arithmetic; clog2 vs (n-1).bit_length() on chunks of 1..2^16(+random to 2^70), "
    "bin_to_int(int_to_bin(i,w,lend),lend) for all i<2^w, w<=12 (chunked); every block must be lint-clean. "
    "non-trivial = every case; distinct = (block, width, flags, vector seed / chunk)"
)
BUDGET = {
    "quick": {"workers": 16, "cases": 240, "secs": 90, "min_cases": 1920, "case_secs": 60},
    "thorough": {"workers": 16, "rounds": 4, "cases": 700, "secs": 420, "min_cases": 22400, "case_secs": 60},
}
ANCHORS = ["logic:adder", "logic:mux", "logic:popcount", "logic:half_adder", "logic:full_adder", "utils:clog2", "utils:int_to_bin", "utils:bin_to_int"]

WIDTHS = list(range(1, 17)) + [31, 32, 33, 63, 64, 65]


def gen(rng, ctx):
    big = ctx.tier == "thorough"
    if ctx.gen_index == 3 and ctx.index < 2:
        # widths whose indices need more than ten bits / two digits more than once (1025 inputs, 11 select lines)
        return {"block": ["mux", "popcount"][ctx.index], "w": 1025, "seed": rng.getrandbits(32), "huge": True}
    blk = rng.choice(["adder", "adder", "mux", "mux", "popcount", "popcount", "half_adder", "full_adder", "clog2", "bin"])
    ws = WIDTHS + ([127, 128, 129] if big else [])
    # index-driven width so that every width is covered by some worker
    w = ws[(ctx.gen_index * 16 + ctx.index + rng.randint(0, 1)) % len(ws)] if rng.random() < 0.7 else rng.choice(ws)
    case = {"block": blk, "w": w, "seed": rng.getrandbits(32)}
    if blk == "adder":
        case["cin"] = rng.random() < 0.5
        case["cout"] = rng.random() < 0.5
    if blk == "popcount" and w > 64:
        case["w"] = rng.choice([w for w in ws if w <= 65])
    if blk == "mux" and w > 65:
        case["w"] = rng.choice([w for w in ws if w <= 65])
    if blk == "clog2":
        case["lo"] = rng.choice([1, 1, rng.randint(1, 1 << 16), (1 << rng.randint(2, 70)) - 3])
    if blk == "bin":
        case["w"] = rng.randint(0, 12)
        case["lend"] = rng.random() < 0.5
    return case


def vectors(rng, names, n):
    """all-0, all-1, one-hots, then random."""
    yield {x: False for x in names}
    yield {x: True for x in names}
    for x in rng.sample(names, min(len(names), 6)):
        yield {y: (y == x) for y in names}
    for _ in range(n):
        p = rng.choice([0.1, 0.5, 0.5, 0.9])
        yield {x: rng.random() < p for x in names}


def check(case, ctx):
    cg = ctx.cg
    blk, w = case["block"], case["w"]
    rng = random.Random(case["seed"])
    ctx.count(f"block:{blk}")
    if blk == "clog2":
        lo = case["lo"]
        for nn in range(lo, lo + 4096):
            ok, r = ctx.call(cg.utils.clog2, nn)
            if not ok or r != (nn - 1).bit_length():
                ctx.violation("clog2", f"clog2({nn}) gave {r!r}, ceil(log2) is {(nn - 1).bit_length()}")
                break
        ctx.count("cmp:clog2", 4096)
        ok, r = ctx.call(cg.utils.clog2, 0)
        if ok or not isinstance(r, ValueError):
            ctx.violation("clog2_zero", f"clog2(0) gave {r!r}")
        return
    if blk == "bin":
        lend = case["lend"]
        for i in range(1 << w):
            ok, b = ctx.call(cg.utils.int_to_bin, i, w, lend)
            if not ok:
                ctx.violation("int_to_bin", f"int_to_bin({i},{w},{lend}) raised {b!r}")
                break
            bits = list(b)
            want = [bool((i >> j) & 1) for j in range(w)]
            if not lend:
                want = want[::-1]
            if w == 0:
                want = bits  # width 0 is degenerate (zfill(0) of '0'); only the round trip is required
            if case["seed"] % 2:
                # the decoder gets its argument as a list and must leave it alone (decoding twice gives the same number)
                b = list(b)
                ctx.call(cg.utils.bin_to_int, b, lend)
                if list(b) != bits:
                    ctx.violation("bin_argument_modified", f"bin_to_int({bits},{lend}) changed its argument to {b}")
                    break
            ok2, back = ctx.call(cg.utils.bin_to_int, b, lend)
            if bits != want or len(bits) != max(w, len(bits)) or not ok2 or back != i:
                ctx.violation("bin_roundtrip", f"int_to_bin({i},{w},lend={lend})={b!r}, bin_to_int gives {back!r}")
                break
        ctx.count("cmp:bin_roundtrip", 1 << w)
        return
    ctx.count(f"width:{w}")
    if blk == "adder":
        ok, c = ctx.call(cg.logic.adder, w, case["cin"], case["cout"])
    elif blk == "mux":
        ok, c = ctx.call(cg.logic.mux, w)
    elif blk == "popcount":
        ok, c = ctx.call(cg.logic.popcount, w)
    elif blk == "half_adder":
        ok, c = ctx.call(cg.logic.half_adder)
    else:
        ok, c = ctx.call(cg.logic.full_adder)
    if not ok:
        ctx.violation(blk + "_raised", f"logic.{blk}({w}) raised {c!r}\n{getattr(c, '_tb', '')}")
        return
    if case["seed"] % 5 == 0:
        from rv.props._util import repeat_call

        fn2, a2 = {"adder": (cg.logic.adder, (w, case.get("cin"), case.get("cout"))), "mux": (cg.logic.mux, (w,)), "popcount": (cg.logic.popcount, (w,)), "half_adder": (cg.logic.half_adder, ()), "full_adder": (cg.logic.full_adder, ())}[blk]
        ok, c = repeat_call(ctx, blk, f"logic.{blk}({w})", fn2, a2, {}, (ok, c))
        if not ok:
            ctx.violation(blk + "_raised", f"logic.{blk}({w}) raised {c!r} when called again")
            return
        # a caller may customise a returned block in place; later blocks must not be affected
        for nn in list(c.graph.nodes)[:4]:
            if c.graph.nodes[nn].get("type") in ("and", "or", "xor"):
                c.graph.nodes[nn]["type"] = {"and": "or", "or": "and", "xor": "xnor"}[c.graph.nodes[nn]["type"]]
        c.graph.add_node("zz_scribble", type="buf", output=True)
        ok, c = ctx.call(fn2, *a2)
        ctx.count("regenerated_after_edit")
        if not ok:
            ctx.violation(blk + "_raised", f"logic.{blk}({w}) raised {c!r} when called again")
            return
    net = Net.of(c)
    probs = own_lint(net)
    if case["seed"] % 4 == 1:
        # earlier lint calls - other options, other (malformed) circuits - must not influence this one
        bad = cg.Circuit(name="malformed")
        bad.add("g", "and", output=True)
        bad.add("h", "buf", fanin=["g"])
        ctx.call(cg.lint, bad, fail_fast=False)
        ctx.call(cg.lint, c, fail_fast=bool(case["seed"] & 8), unloaded=bool(case["seed"] & 16), undriven=not (case["seed"] & 32), single_input_gates=True)
        ctx.count("lint_after_other_lint_calls")
    okl, rl = ctx.call(cg.lint, c)
    if okl and case["seed"] % 3 == 0:
        okl, rl = ctx.call(cg.lint, c, fail_fast=False, single_input_gates=False)
        ctx.count("lint_collect_mode")
    if probs or not okl:
        ctx.violation(blk + "_lint", f"logic.{blk}({w}) is not lint-clean: {probs[:3]} {rl if not okl else ''}")
        return
    ins = sorted(net.inputs())
    outs = net.outputs
    # expected interface
    sel_w = (w - 1).bit_length()
    if blk == "adder":
        exp_in = {f"a_{i}" for i in range(w)} | {f"b_{i}" for i in range(w)} | ({"cin"} if case["cin"] else set())
        exp_out = {f"out_{i}" for i in range(w)} | ({"cout"} if case["cout"] else set())
    elif blk == "mux":
        exp_in = {f"in_{i}" for i in range(w)} | {f"sel_{i}" for i in range(sel_w)}
        exp_out = {"out"}
    elif blk == "popcount":
        exp_in = {f"in_{i}" for i in range(w)}
        exp_out = None
    elif blk == "half_adder":
        exp_in, exp_out = {"x", "y"}, {"s", "c"}
    else:
        exp_in, exp_out = {"x", "y", "cin"}, {"s", "cout"}
    if set(ins) != exp_in or (exp_out is not None and outs != exp_out):
        ctx.violation(blk + "_interface", f"logic.{blk}({w}): inputs {ins[:6]}.. outputs {sorted(outs)[:6]}.. differ from the documented interface")
        return
    if blk == "popcount":
        ob = sorted(outs, key=lambda x: int(x.rsplit("_", 1)[1]))
        if [int(x.rsplit("_", 1)[1]) for x in ob] != list(range(len(ob))) or (1 << len(ob)) <= w:
            ctx.violation("popcount_interface", f"popcount({w}) outputs {ob} cannot encode 0..{w}")
            return

    def expect(a):
        if blk == "adder":
            x = sum(a[f"a_{i}"] << i for i in range(w))
            y = sum(a[f"b_{i}"] << i for i in range(w))
            s = x + y + (a["cin"] if case["cin"] else 0)
            e = {f"out_{i}": bool((s >> i) & 1) for i in range(w)}
            if case["cout"]:
                e["cout"] = bool((s >> w) & 1)
            return e
        if blk == "mux":
            i = sum(a[f"sel_{j}"] << j for j in range(sel_w))
            return {"out": bool(a[f"in_{i}"]) if i < w else False}
        if blk == "popcount":
            s = sum(a[f"in_{i}"] for i in range(w))
            return {o: bool((s >> i) & 1) for i, o in enumerate(ob)}
        if blk == "half_adder":
            s = a["x"] + a["y"]
            return {"s": bool(s & 1), "c": bool(s >> 1)}
        s = a["x"] + a["y"] + a["cin"]
        return {"s": bool(s & 1), "cout": bool(s >> 1)}

    topo = net.topo()
    if len(ins) <= 12:
        ctx.count("exhaustive_blocks")
        vals, k = sim.functions(net, ins)
        for j in range(1 << k):
            a = {x: (j >> i) & 1 for i, x in enumerate(ins)}
            e = expect(a)
            for o, v in e.items():
                if ((vals[o] >> j) & 1) != int(v):
                    ctx.violation(blk + "_value", f"logic.{blk}({w}{',cin' if case.get('cin') else ''}{',cout' if case.get('cout') else ''}): output {o}={(vals[o] >> j) & 1}, arithmetic gives {int(v)} for inputs { {x: y for x, y in a.items() if y} } set")
                    return
        ctx.count("vectors", 1 << k)
    else:
        ctx.count("sampled_blocks")
        if case.get("huge"):
            ctx.count("width_1025")
        nv = 0

        def targeted():
            # mux: address the last inputs and the inputs whose index is a power of two, only that input set
            if blk == "mux":
                for idx in sorted({w - 1, w - 2, w // 2} | {1 << j for j in range(sel_w) if (1 << j) < w}):
                    a_ = {x: False for x in ins}
                    for j in range(sel_w):
                        a_[f"sel_{j}"] = bool((idx >> j) & 1)
                    a_[f"in_{idx}"] = True
                    yield a_

        import itertools

        for a in itertools.chain(targeted(), vectors(rng, ins, (200 if ctx.tier == "thorough" else 40) if not case.get("huge") else 6)):
            nv += 1
            got = sim.simulate(net, a, topo)
            e = expect({x: int(v) for x, v in a.items()})
            bad = [o for o, v in e.items() if got[o] != v]
            if bad:
                ctx.violation(blk + "_value", f"logic.{blk}({w}): outputs {bad[:4]} wrong for inputs set {[x for x, v in a.items() if v][:12]}")
                return
        ctx.count("vectors", nv)


def gates(counters, table, tier):
    out = []
    for w in WIDTHS:
        if counters.get(f"width:{w}", 0) < 1:
            out.append(f"width {w} never generated")
    for k in ("block:adder", "block:mux", "block:popcount", "block:half_adder", "block:full_adder", "cmp:clog2", "cmp:bin_roundtrip", "exhaustive_blocks", "sampled_blocks"):
        if counters.get(k, 0) < 3:
            out.append(f"{k} seen {counters.get(k, 0)} times")
    if counters.get("lint_after_other_lint_calls", 0) < 20:
        out.append(f"lint after other lint calls seen {counters.get('lint_after_other_lint_calls', 0)} times")
    if counters.get("width_1025", 0) < 2:
        out.append(f"width 1025 (mux and popcount) seen {counters.get('width_1025', 0)} times")
    return out
