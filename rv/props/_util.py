"""Helpers shared by property modules."""
from rv.oracle import sim
from rv.oracle.sim import Net


def lint_clean(ctx, c, **kw):
    """(True, None) or (False, message) according to the library's own lint."""
    ok, r = ctx.call(ctx.cg.lint, c, **kw)
    return (True, None) if ok else (False, repr(r))


def own_lint(net):
    """Independent re-statement of the wiring rules (used where the library's
    lint must not be the only judge).  Returns list of problems."""
    probs = []
    for n, t in net.types.items():
        fi, fo = net.preds[n], net.succs[n]
        if t not in sim.GATES + sim.FREE_TYPES + sim.CONST_TYPES + ("bb_input",):
            probs.append(f"{n}: unsupported type {t!r}")
            continue
        if t in ("input", "0", "1", "x", "bb_output") and fi:
            probs.append(f"{n}: {t} has fan-in {fi}")
        if t in ("buf", "not", "bb_input") and len(fi) > 1:
            probs.append(f"{n}: {t} has {len(fi)} drivers")
        if t == "bb_input" and fo:
            probs.append(f"{n}: bb_input has fan-out {fo}")
        if t == "bb_output":
            if len(fo) > 1:
                probs.append(f"{n}: bb_output drives {len(fo)} nodes")
            for m in fo:
                if net.types[m] != "buf":
                    probs.append(f"{n}: bb_output drives non-buf {m}")
        if "." in n and n.split(".")[0] not in net.bbs:
            probs.append(f"{n}: dotted name without instance")
    for inst, (_, ins, outs) in net.bbs.items():
        for p in ins:
            if net.types.get(f"{inst}.{p}") != "bb_input":
                probs.append(f"{inst}.{p}: missing or mistyped input pin")
        for p in outs:
            if net.types.get(f"{inst}.{p}") != "bb_output":
                probs.append(f"{inst}.{p}: missing or mistyped output pin")
    return probs


def undriven(net):
    return [n for n, t in net.types.items() if t in sim.GATES + ("bb_input",) and not net.preds[n]]


def compare_functions(ctx, kind, before, after, nodes, order=None, extra_fixed=None, what=""):
    """Every node of ``nodes`` has the same function of the free signals in both nets.
    Returns True when compared and equal."""
    order = list(order if order is not None else before.free())
    try:
        vb, k = sim.functions(before, order)
        fixed = dict(extra_fixed or {})
        va, _ = sim.functions(after, order, fixed={n: v for n, v in fixed.items()}, k=k)
    except ValueError as e:
        ctx.violation(kind + "_not_simulable", f"{what}: result cannot be simulated over the original free signals {order}: {e}")
        return False
    ok = True
    for n in nodes:
        if n not in va:
            ctx.violation(kind + "_node_lost", f"{what}: original node {n!r} is missing from the result")
            ok = False
            continue
        if va[n] != vb[n]:
            d = va[n] ^ vb[n]
            j = (d & -d).bit_length() - 1
            ctx.violation(kind + "_function", f"{what}: node {n!r} computes {sim.bit_at(va[n], j)} instead of {sim.bit_at(vb[n], j)} under {sim.index_valuation(order, j)}")
            ok = False
            break
    return ok


def _canon_result(r):
    from rv.monitor import snapshot

    if hasattr(r, "graph") and hasattr(r, "blackboxes"):
        return ("circuit", snapshot(r))
    if isinstance(r, dict):
        return ("dict", tuple(sorted((repr(k), _canon_result(v)) for k, v in r.items())))
    if isinstance(r, (list, tuple)):
        return ("seq", tuple(_canon_result(x) for x in r))
    if isinstance(r, (set, frozenset)):
        return ("set", tuple(sorted(repr(x) for x in r)))
    return ("val", repr(r))


def repeat_call(ctx, kind, what, fn, args, kwargs, first):
    """Call ``fn`` a second time with the SAME argument objects and return the second outcome
    ``(ok, result)``; the caller judges THAT outcome with its oracle.  State leaking between calls
    (caches keyed by the wrong thing, mutable defaults, arguments modified by the first call) then shows
    up as an ordinary violation, while a library that merely returns a different-but-correct result the
    second time is not blamed.  A difference between the two outcomes is only counted."""
    ok1, r1 = first
    ok2, r2 = ctx.call(fn, *args, **kwargs)
    ctx.count("repeat_calls")
    try:
        if ok1 != ok2 or (ok1 and _canon_result(r1) != _canon_result(r2)):
            ctx.count("repeat_call_outcome_differs")
    except Exception:  # noqa: BLE001
        pass
    if not ok2 or not _damage(r2):
        return ok2, r2
    # the caller edits what it was handed; a third call must not see those edits (results shared between calls)
    ok3, r3 = ctx.call(fn, *args, **kwargs)
    ctx.count("repeat_calls_after_editing_a_result")
    return ok3, r3


def _circuits_in(r, out, depth=0):
    if hasattr(r, "graph") and hasattr(r, "blackboxes"):
        out.append(r)
    elif isinstance(r, dict) and depth < 2:
        for v in r.values():
            _circuits_in(v, out, depth + 1)
    elif isinstance(r, (list, tuple)) and depth < 2:
        for v in r:
            _circuits_in(v, out, depth + 1)
    return out


def _damage(r):
    """Edit every Circuit inside a returned value in place (new output node, one gate retyped, one edge removed,
    registry emptied).  Returns the number of circuits edited."""
    cs = _circuits_in(r, [])
    for c in cs:
        g = c.graph
        for n in list(g.nodes):
            if g.nodes[n].get("type") in ("and", "or", "xor", "nand", "nor", "xnor"):
                g.nodes[n]["type"] = "nor" if g.nodes[n]["type"] != "nor" else "and"
                break
        for e in list(g.edges)[:1]:
            g.remove_edge(*e)
        g.add_node("zz_edited_by_caller", type="buf", output=True)
        try:
            c.blackboxes.clear()
        except Exception:  # noqa: BLE001
            pass
    return len(cs)
