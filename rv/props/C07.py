"""C07 - the construction API never leaves an illegally wired circuit."""
import json
import zlib

from rv.gen import circuits as G
from rv.oracle.sim import Net

RULE = (
    "random histories of 5..40 calls of add (default flags / uid=True / uid=True with allow_redefinition=True), connect (names as str, list, tuple, set, dict keys, one-shot iterator), disconnect, remove, set_output, add_blackbox, add_subcircuit (strip_io default / False), fill_blackbox, uid storms (12..16 requests of one name, removals, more requests) over a "
    "universe of ~12 names (existing nodes, fresh, duplicate, self-referential, digit-leading, dotted, non-existent), all node types incl. unsupported ones, str and list "
    "arguments, starting from the empty circuit or a generated circuit with blackboxes; roughly half of the calls are illegal. After EVERY call (returned or raised) the wiring "
    "invariants of the property are evaluated on the raw graph; a raising call must not add an edge and must raise ValueError for illegal type/name/connection arguments; "
    "uid=True must return a fresh name and leave all previous nodes and edges alone. non-trivial = >=5 calls with both outcomes; distinct = canonical history"
)
BUDGET = {
    "quick": {"workers": 16, "cases": 1200, "secs": 60, "min_cases": 9600},
    "thorough": {"workers": 16, "rounds": 4, "cases": 3500, "secs": 420, "min_cases": 112000},
}
BUILD_VERDICTS = ("blackbox_definition_changed",)  # the registry is part of this property (see gen.circuits.Misbehaved)
ANCHORS = ["circuit:Circuit.add", "circuit:Circuit.connect", "circuit:Circuit.uid", "circuit:Circuit.add_blackbox", "circuit:Circuit.add_subcircuit", "circuit:Circuit.fill_blackbox", "circuit:Circuit.remove", "circuit:Circuit.disconnect", "circuit:Circuit.set_output"]

TYPES = ["buf", "not", "and", "nand", "or", "nor", "xor", "xnor", "input", "0", "1", "x", "bb_input", "bb_output"]
BAD_TYPES = ["mux", "AND", "output", "wire"]
BBDEFS = [
    {"name": "ff", "inputs": ["clk", "d"], "outputs": ["q"]},
    {"name": "one", "inputs": ["p"], "outputs": ["o"]},
    {"name": "two", "inputs": ["a", "b"], "outputs": ["y", "z"]},
    {"name": "dot", "inputs": ["p.d"], "outputs": ["o"]},  # pin name containing the separator
    {"name": "bidi", "inputs": ["a", "dq"], "outputs": ["dq", "y"]},  # one pin name in both lists: the instance cannot be built
    {"name": "subpin", "inputs": ["a"], "outputs": ["inner.d", "inner.q"]},  # matches child ch4
]


def gen(rng, ctx):
    big = ctx.tier == "thorough"
    start = None
    if rng.random() < 0.5:
        start = G.rand_circuit(rng, rng.randint(1, 3), rng.randint(1, 5), max_fanin=3, p_const=0.2)
        if rng.random() < 0.6:
            start = G.add_blackboxes(rng, start, rng.randint(1, 2), bbdefs=BBDEFS[:4], p_unconnected=0.3)
    children = []
    for i in range(2):
        ch = G.rand_circuit(rng, rng.randint(1, 2), rng.randint(1, 3), max_fanin=2, name=f"ch{i}", in_prefix=rng.choice(["p", "a", "d"]), gate_prefix=rng.choice(["o", "y", "q"]), n_outputs=1, p_input_output=0.0, p_const=0.0)
        if rng.random() < 0.5:
            # make the child match blackbox 'one' (p -> o) so that fill_blackbox can succeed
            ch = {"name": f"ch{i}", "nodes": [["p", "input", False], ["m", rng.choice(["not", "buf"]), False], ["o", rng.choice(["and", "buf", "xor"]), True]], "edges": [["p", "m"], ["m", "o"]] + ([["p", "o"]] if rng.random() < 0.5 else []), "bbs": {}}
            if ch["nodes"][2][1] == "buf" and len([e for e in ch["edges"] if e[1] == "o"]) > 1:
                ch["nodes"][2][1] = "and"
            if rng.random() < 0.4:
                # floating internals: a nested instance whose pins are all open and a spare gate without any wire
                ch["nodes"] += [["n1.a", "bb_input", False], ["n1.b", "bb_input", False], ["n1.y", "bb_output", False], ["n1.z", "bb_output", False], ["spare", rng.choice(["xor", "and", "buf"]), False]]
                ch["bbs"] = {"n1": {"name": "two", "inputs": ["a", "b"], "outputs": ["y", "z"]}}
        children.append(ch)
    # a child with the pin NAMES of blackbox `one` but the opposite directions (fill must refuse it)
    children.append({"name": "ch2", "nodes": [["o", "input", False], ["p", rng.choice(["not", "buf", "and"]), True]], "edges": [["o", "p"]], "bbs": {}})
    # a child with two outputs (both may be mapped onto the same parent net) and a nested blackbox instance
    children.append({"name": "ch3", "nodes": [["a", "input", False], ["b", "input", False], ["y", "and", True], ["z", "or", True], ["n0.p", "bb_input", False], ["n0.o", "bb_output", False], ["w", "buf", False]],
                     "edges": [["a", "y"], ["b", "y"], ["a", "z"], ["w", "z"], ["b", "n0.p"], ["n0.o", "w"]], "bbs": {"n0": {"name": "one", "inputs": ["p"], "outputs": ["o"]}}})
    # a child whose outputs are the pins of an instance nested in it (legal as a circuit; as a filling it would put
    # parent loads on a blackbox input / a second load on a blackbox output)
    children.append({"name": "ch4", "nodes": [["a", "input", False], ["inner.d", "bb_input", True], ["inner.q", "bb_output", True], ["qb", "buf", False]],
                     "edges": [["a", "inner.d"], ["inner.q", "qb"]], "bbs": {"inner": {"name": "ffi", "inputs": ["d"], "outputs": ["q"]}}})
    names = ["a", "b", "c", "g", "x_y", "a_0", "u", "u.p", "u.o", "v", "1z", "w.d", "I", "I_p", "I_o", "u_p", ""]
    existing = [n for n, _, _ in start["nodes"]] if start else []
    n_ops = rng.randint(5, 40 if big else 28)
    ops = []
    if rng.random() < 0.06:
        # "uid storm": the same name requested many times, to walk uid()'s suffix sequence past 10
        base = rng.choice(["a", "g", "x_y"])
        for j in range(rng.randint(12, 16)):
            ops.append({"op": "add", "n": base, "type": rng.choice(["buf", "and", "input"]), "uid": True, "output": False})
        # the circuit shrinks, then more names are requested
        for _ in range(rng.randint(0, 3)):
            ops.append({"op": "remove", "ns": rng.choice(existing + [base, f"{base}_{rng.randint(0, 12)}", f"{base}_{rng.randint(0, 12)}"])})
            for _ in range(rng.randint(1, 3)):
                ops.append({"op": "add", "n": base, "type": rng.choice(["buf", "or", "input"]), "uid": True, "output": rng.random() < 0.3, "redef": rng.random() < 0.2})
        return {"start": start, "children": children, "ops": ops, "storm": True}
    live = list(existing)
    insts = list(start["bbs"]) if start else []
    ltype = {n: t for n, t, _ in start["nodes"]} if start else {}

    def of_type(*types):
        c = [n for n in live if ltype.get(n) in types]
        return rng.choice(c) if c else None

    def pick(k=None):
        pool = live + names if live else names
        if rng.random() < 0.7 and live:
            pool = live + live + names
        return rng.choice(pool)

    def picks(maxn=3):
        r = rng.random()
        if r < 0.55:
            return pick()
        if r < 0.65:
            return []
        return [pick() for _ in range(rng.randint(1, maxn))]

    for _ in range(n_ops):
        k = rng.choice(["add", "add", "add", "add_uid", "connect", "connect", "connect", "disconnect", "remove", "set_output", "add_blackbox", "add_subcircuit", "fill_blackbox", "targeted"])
        if k == "targeted":
            # calls aimed at one wiring rule, built from the (approximate) types of the live nodes
            t = rng.choice(["bbout_to_bufs", "second_driver", "into_source", "from_bbin", "bbout_to_gate", "fresh_bufs_then_bbout", "bb_conn_list", "add_bbout_fanout", "two_pins_one_buf", "pin_replaced_then_fill", "fill_nested_name_taken", "fill_nested_name_taken", "unknown_pin_names_node", "fill_with_pin_outputs", "self_as_child"])
            bo, bi = of_type("bb_output"), of_type("bb_input")
            bufs = [n for n in live if ltype.get(n) == "buf"]
            if t == "fill_with_pin_outputs":
                b0, b1 = f"fb{len(ops)}", f"fc{len(ops)}"
                name = f"T{len(ops)}"
                ops.append({"op": "add", "n": b0, "type": "buf", "uid": False, "output": True})
                ops.append({"op": "add", "n": b1, "type": "buf", "uid": False, "output": True})
                live += [b0, b1]
                ltype[b0] = ltype[b1] = "buf"
                conns = {"a": pick()}
                if rng.random() < 0.8:
                    conns["inner.d"] = b0
                if rng.random() < 0.8:
                    conns["inner.q"] = b1
                ops.append({"op": "add_blackbox", "bb": BBDEFS[5], "name": name, "connections": conns})
                ops.append({"op": "fill_blackbox", "name": name, "child": 4})
                insts.append(name)
                continue
            if t == "self_as_child":
                # the circuit instantiated inside itself / filled into one of its own instances
                if rng.random() < 0.5 or not insts:
                    ops.append({"op": "add_subcircuit", "child": -1, "name": rng.choice(["I", "u", "s"]), "connections": {}})
                else:
                    ops.append({"op": "fill_blackbox", "name": rng.choice(insts), "child": -1})
                continue
            if t == "unknown_pin_names_node":
                # instance u.v exists; instance u is then declared with the connection key "v.o" / "v.p" (no pin of its
                # cell, but u.v.o / u.v.p are nodes): the call must be refused whatever those nodes could be wired to
                b0 = f"fb{len(ops)}"
                host = rng.choice(["u", "w", f"T{len(ops)}"])
                ops.append({"op": "add", "n": b0, "type": "buf", "uid": False, "output": True})
                live.append(b0)
                ltype[b0] = "buf"
                ops.append({"op": "add_blackbox", "bb": BBDEFS[1], "name": f"{host}.v", "connections": {}})
                ops.append({"op": "add_blackbox", "bb": rng.choice([BBDEFS[0], BBDEFS[2]]), "name": host, "connections": {"v.o": b0} if rng.random() < 0.6 else {"v.p": pick()}})
                insts += [f"{host}.v", host]
                continue
            if t == "fresh_bufs_then_bbout":
                b0, b1 = f"fb{len(ops)}", f"fc{len(ops)}"
                ops.append({"op": "add", "n": b0, "type": "buf", "uid": False, "output": True})
                ops.append({"op": "add", "n": b1, "type": "buf", "uid": False, "output": True})
                live += [b0, b1]
                ltype[b0] = ltype[b1] = "buf"
                name = f"T{len(ops)}"
                bb = BBDEFS[1]
                if rng.random() < 0.5:
                    ops.append({"op": "add_blackbox", "bb": bb, "name": name, "connections": {}})
                    ops.append({"op": "connect", "us": f"{name}.o", "vs": [b0, b1]})
                else:
                    ops.append({"op": "add_blackbox", "bb": bb, "name": name, "connections": {"o": [b0, b1]}})
                insts.append(name)
                live += [f"{name}.p", f"{name}.o"]
                ltype[f"{name}.p"], ltype[f"{name}.o"] = "bb_input", "bb_output"
            elif t == "fill_nested_name_taken":
                # the name <inst>_<nested> that the fill needs for a nested instance is already registered (another cell type)
                nested = [(i, sorted(ch["bbs"])) for i, ch in enumerate(children) if ch["bbs"] and {n for n, t_, o in ch["nodes"] if t_ == "input"} == {"p"} and {n for n, t_, o in ch["nodes"] if o} == {"o"}]
                if nested:
                    ci_, nbs = rng.choice(nested)
                    name = f"T{len(ops)}"
                    ops.append({"op": "add_blackbox", "bb": BBDEFS[1], "name": name, "connections": {}})
                    ops.append({"op": "add_blackbox", "bb": rng.choice([BBDEFS[0], BBDEFS[3]]), "name": f"{name}_{nbs[0]}", "connections": {}})
                    ops.append({"op": "fill_blackbox", "name": name, "child": ci_})
                    insts += [name, f"{name}_{nbs[0]}"]
            elif t == "pin_replaced_then_fill":
                # a pin node is removed by the caller, an ordinary gate takes its dotted name, then the instance is filled
                name = f"T{len(ops)}"
                ops.append({"op": "add_blackbox", "bb": BBDEFS[1], "name": name, "connections": {}})
                pin_ = rng.choice(["p", "o"])
                ops.append({"op": "remove", "ns": f"{name}.{pin_}"})
                if rng.random() < 0.4:
                    # the pin comes back with the opposite direction
                    ops.append({"op": "add", "n": f"{name}.{pin_}", "type": "bb_output" if pin_ == "p" else "bb_input", "uid": False, "output": False, **({"fanin": pick()} if pin_ == "o" else {})})
                else:
                    ops.append({"op": "add", "n": f"{name}.{pin_}", "type": rng.choice(["and", "or", "bb_input", "bb_output", "buf"]), "uid": False, "output": False, "fanin": [pick(), pick()] if rng.random() < 0.7 else pick()})
                matching = [i for i, ch in enumerate(children) if {n for n, t_, o in ch["nodes"] if t_ == "input"} == {"p"} and {n for n, t_, o in ch["nodes"] if o} == {"o"}]
                ops.append({"op": "fill_blackbox", "name": name, "child": rng.choice(matching) if matching else 0})
                insts.append(name)
            elif t == "two_pins_one_buf":
                # both output pins of one instance mapped onto the same fresh buffer: each legal alone
                b0 = f"fb{len(ops)}"
                ops.append({"op": "add", "n": b0, "type": "buf", "uid": False, "output": True})
                live.append(b0)
                ltype[b0] = "buf"
                name = f"T{len(ops)}"
                ops.append({"op": "add_blackbox", "bb": BBDEFS[2], "name": name, "connections": {"y": b0, "z": b0}})
                insts.append(name)
            elif t == "add_bbout_fanout":
                b0, b1 = f"fb{len(ops)}", f"fc{len(ops)}"
                ops.append({"op": "add", "n": b0, "type": "buf", "uid": False, "output": True})
                ops.append({"op": "add", "n": b1, "type": "buf", "uid": False, "output": True})
                live += [b0, b1]
                ltype[b0] = ltype[b1] = "buf"
                ops.append({"op": "add", "n": f"po{len(ops)}", "type": "bb_output", "uid": False, "output": False, "fanout": [b0, b1]})
            elif t == "bbout_to_bufs" and bo and bufs:
                ops.append({"op": "connect", "us": bo, "vs": rng.sample(bufs, min(len(bufs), rng.randint(1, 2)))})
            elif t == "second_driver" and (bi or bufs):
                ops.append({"op": "connect", "us": [pick(), pick()] if rng.random() < 0.5 else pick(), "vs": rng.choice([x for x in [bi] + bufs if x is not None])})
            elif t == "into_source":
                tgt = of_type("input", "0", "1", "x", "bb_output")
                if tgt:
                    ops.append({"op": "connect", "us": pick(), "vs": tgt})
            elif t == "from_bbin" and bi:
                ops.append({"op": "connect", "us": bi, "vs": pick()})
            elif t == "bbout_to_gate" and bo:
                g_ = of_type("and", "or", "xor", "not", "nand", "nor", "xnor")
                if g_:
                    ops.append({"op": "connect", "us": bo, "vs": g_})
            elif t == "bb_conn_list" and bufs:
                bb = rng.choice(BBDEFS)
                name = rng.choice(["u", "v", "w", "u.p", "u.v", f"T{len(ops)}"])
                conns = {bb["outputs"][0]: rng.sample(bufs, min(len(bufs), 2)), bb["inputs"][0]: [pick(), pick()] if rng.random() < 0.3 else pick()}
                ops.append({"op": "add_blackbox", "bb": bb, "name": name, "connections": conns})
                insts.append(name)
            continue
        if k in ("add", "add_uid"):
            t = rng.choice(TYPES) if rng.random() < 0.92 else rng.choice(BAD_TYPES)
            n = rng.choice(names) if rng.random() < 0.75 else pick()
            op = {"op": "add", "n": n, "type": t, "uid": k == "add_uid", "output": rng.random() < 0.3}
            if k == "add_uid" and rng.random() < 0.2:
                op["redef"] = True  # uid=True together with allow_redefinition=True: uid still decides
            if rng.random() < 0.5:
                op["fanin"] = picks(2)
            if rng.random() < 0.4:
                op["fanout"] = picks(2)
            if rng.random() < 0.15:
                op["rep"] = rng.choice(["tuple", "set", "frozenset", "dictkeys"])
            ops.append(op)
            live.append(n)
            ltype.setdefault(n, t)
        elif k == "connect":
            ops.append({"op": "connect", "us": picks(), "vs": picks()})
            if rng.random() < 0.25:
                ops[-1]["rep"] = rng.choice(["tuple", "set", "frozenset", "iter", "gen", "dictkeys"])
        elif k == "disconnect":
            ops.append({"op": "disconnect", "us": picks(), "vs": picks()})
        elif k == "remove":
            ops.append({"op": "remove", "ns": picks(2)})
            if rng.random() < 0.2:
                ops[-1]["rep"] = rng.choice(["tuple", "set", "gen", "dictkeys"])
        elif k == "set_output":
            ops.append({"op": "set_output", "ns": picks(2), "value": rng.random() < 0.7})
            if rng.random() < 0.2:
                ops[-1]["rep"] = rng.choice(["tuple", "set", "frozenset", "dictkeys"])
        elif k == "add_blackbox":
            bb = rng.choice(BBDEFS)
            name = rng.choice(["u", "v", "w", "I", "1z", "u", "u.p", "u.v", "I_n0", "u_n0", "s_n1", "a_n0", "u_n1", "v_n1", "w_n1", "I_n1"]) if rng.random() < 0.8 else pick()  # <inst>_<nested>: the key a later add_subcircuit needs
            conns = {}
            for p in bb["inputs"] + bb["outputs"]:
                if rng.random() < 0.5:
                    conns[p] = pick()
            if rng.random() < 0.15:
                # a key that is no pin of the cell - preferably one for which <name>.<key> is the name of another node
                cand = sorted({x[len(name) + 1:] for x in live if x.startswith(name + ".")} - set(bb["inputs"] + bb["outputs"]))
                conns[rng.choice(cand) if cand and rng.random() < 0.7 else "nopin"] = pick()
            ops.append({"op": "add_blackbox", "bb": bb, "name": name, "connections": conns})
            if rng.random() < 0.15:
                ops[-1]["rep"] = rng.choice(["tuple", "set", "frozenset"])
            insts.append(name)
            live += [f"{name}.{p}" for p in bb["inputs"] + bb["outputs"]]
            for p in bb["inputs"]:
                ltype.setdefault(f"{name}.{p}", "bb_input")
            for p in bb["outputs"]:
                ltype.setdefault(f"{name}.{p}", "bb_output")
        elif k == "add_subcircuit":
            ci = rng.randrange(len(children))
            ch = children[ci]
            name = rng.choice(["I", "u", "s", "a"])
            io = [n for n, t, o in ch["nodes"] if t == "input" or o]
            conns = {}
            for p in io:
                if rng.random() < 0.6:
                    conns[p] = pick() if rng.random() < 0.85 else [pick(), pick()]
            if rng.random() < 0.1:
                conns["m"] = pick()
            outs_ = [n for n, t, o in ch["nodes"] if o and t != "input"]
            if len(outs_) >= 2 and rng.random() < 0.5:
                tgt = pick()
                for o_ in outs_:
                    conns[o_] = tgt  # each legal alone, illegal together
            ops.append({"op": "add_subcircuit", "child": ci, "name": name, "connections": conns})
            if rng.random() < 0.2:
                ops[-1]["strip_io"] = False
            live += [f"{name}_{n}" for n, _, _ in ch["nodes"]]
        else:
            name = rng.choice(insts) if insts and rng.random() < 0.8 else rng.choice(["u", "v", "ghost"])
            ops.append({"op": "fill_blackbox", "name": name, "child": rng.randrange(len(children))})
    return {"start": start, "children": children, "ops": ops}


def as_rep(x, rep):
    """The same collection of names in another legal representation (str arguments stay as they are)."""
    if isinstance(x, str):
        return x
    if rep == "tuple":
        return tuple(x)
    if rep == "set":
        return set(x)
    if rep == "frozenset":
        return frozenset(x)
    if rep == "iter":
        return iter(list(x))
    if rep == "gen":
        return (n for n in list(x))
    if rep == "dictkeys":
        return dict.fromkeys(x).keys()
    return x


def state(c):
    g = c.graph
    types = {n: g.nodes[n].get("type", "<missing>") for n in g.nodes}
    edges = set(g.edges)
    outs = {n: g.nodes[n].get("output") for n in g.nodes}
    bbs = {k: (b.name, frozenset(b.input_set), frozenset(b.output_set)) for k, b in c.blackboxes.items()}
    return types, edges, outs, bbs


def invariant(types, edges, bbs, removed_by_caller):
    preds, succs = {n: [] for n in types}, {n: [] for n in types}
    for u, v in edges:
        succs[u].append(v)
        preds[v].append(u)
    probs = []
    for n, t in types.items():
        if t not in TYPES:
            probs.append(f"node {n!r} has unsupported type {t!r}")
            continue
        if t in ("input", "0", "1", "x", "bb_output") and preds[n]:
            probs.append(f"{t} {n!r} has fan-in {preds[n]}")
        if t in ("buf", "not", "bb_input") and len(preds[n]) > 1:
            probs.append(f"{t} {n!r} has {len(preds[n])} drivers {preds[n]}")
        if t == "bb_input" and succs[n]:
            probs.append(f"bb_input {n!r} has fan-out {succs[n]}")
        if t == "bb_output":
            if len(succs[n]) > 1:
                probs.append(f"bb_output {n!r} drives {len(succs[n])} nodes")
            for m in succs[n]:
                if types.get(m) != "buf":
                    probs.append(f"bb_output {n!r} drives non-buf {m!r} ({types.get(m)})")
    for inst, (_, ins, outs) in bbs.items():
        for p, want in [(p, "bb_input") for p in ins] + [(p, "bb_output") for p in outs]:
            pin = f"{inst}.{p}"
            if pin in removed_by_caller:
                continue
            if types.get(pin) != want:
                probs.append(f"registered instance {inst!r}: pin {pin!r} is {types.get(pin, 'missing')!r}, not {want}")
    return probs


def check(case, ctx):
    cg = ctx.cg
    if case["start"]:
        c = G.build(cg, case["start"], "graph")
    else:
        c = cg.Circuit(name="h")
    src = src_state = None
    if case["start"] and case["start"]["bbs"]:
        # the history runs on a circuit derived from another one (copy / strip_* / relabel): the two are separate
        # objects from then on, and the one the history does not touch must keep its graph and its instance records
        how = ["none", "none", "copy", "strip_inputs", "strip_outputs", "strip_io", "relabel"][zlib.crc32(json.dumps(case["start"], sort_keys=True).encode()) % 7]
        if how != "none":
            src = c
            c = c.copy() if how == "copy" else cg.tx.relabel(src, {}) if how == "relabel" else getattr(cg.tx, how)(src)
            src_state = state(src)
            ctx.count(f"start_derived_by:{how}")
    kids = [G.build(cg, cd, "graph") for cd in case["children"]]
    bbobjs = {}
    removed_by_caller = set()
    types, edges, outs, bbs = state(c)
    p0 = invariant(types, edges, bbs, removed_by_caller)
    if p0:
        raise RuntimeError(f"generator produced an ill-formed start circuit: {p0}")
    n_ok = n_rej = 0
    ctx.count("start:generated" if case["start"] else "start:empty")
    if case.get("storm"):
        ctx.count("uid_storm")
    for step, op in enumerate(case["ops"]):
        k = op["op"]
        b_types, b_edges, b_outs, b_bbs = types, edges, outs, bbs
        if k == "add":
            kw = {}
            rep = op.get("rep")
            if "fanin" in op:
                kw["fanin"] = as_rep(op["fanin"], rep)
            if "fanout" in op:
                kw["fanout"] = as_rep(op["fanout"], rep)
            if rep and ("fanin" in op or "fanout" in op):
                ctx.count(f"add_rep:{rep}")
            if op["uid"]:
                kw["uid"] = True
            if op.get("redef"):
                kw["allow_redefinition"] = True
                ctx.count("add_uid_with_allow_redefinition")
            ok, r = ctx.call(c.add, op["n"], op["type"], output=op["output"], **kw)
            label = f"add({op['n']!r},{op['type']!r},{kw})"
            key = "add_uid" if op["uid"] else "add"
        elif k == "connect":
            us, vs = op["us"], op["vs"]
            rep = op.get("rep")
            if rep:
                us, vs = as_rep(us, rep), as_rep(vs, rep)
                ctx.count(f"connect_rep:{rep}")
            ok, r = ctx.call(c.connect, us, vs)
            label = f"connect({op['us']!r},{op['vs']!r}{', given as ' + rep if rep else ''})"
            key = k
        elif k == "disconnect":
            ok, r = ctx.call(c.disconnect, op["us"], op["vs"])
            label = f"disconnect({op['us']!r},{op['vs']!r})"
            key = k
        elif k == "remove":
            ok, r = ctx.call(c.remove, as_rep(op["ns"], op.get("rep")))
            label = f"remove({op['ns']!r})"
            key = k
            if ok:
                ns = [op["ns"]] if isinstance(op["ns"], str) else list(op["ns"])
                removed_by_caller |= {n for n in ns if "." in n}
        elif k == "set_output":
            ok, r = ctx.call(c.set_output, as_rep(op["ns"], op.get("rep")), op["value"])
            label = f"set_output({op['ns']!r},{op['value']})"
            key = k
        elif k == "add_blackbox":
            b = op["bb"]
            if b["name"] not in bbobjs:
                bbobjs[b["name"]] = cg.BlackBox(b["name"], list(b["inputs"]), list(b["outputs"]))
            ok, r = ctx.call(c.add_blackbox, bbobjs[b["name"]], op["name"], {k_: as_rep(v_, op.get("rep")) for k_, v_ in op["connections"].items()})
            label = f"add_blackbox({b['name']},{op['name']!r},{op['connections']})"
            key = k
            nopins = [k_ for k_ in op["connections"] if k_ not in b["inputs"] + b["outputs"]]
            if nopins:
                ctx.count("add_blackbox_with_unknown_pin")
                if any(f"{op['name']}.{k_}" in types for k_ in nopins):
                    ctx.count("add_blackbox_unknown_pin_names_other_node")
                if ok:
                    ctx.violation("unknown_pin_accepted_by_add_blackbox", f"{label}: connection key(s) {nopins} are no pins of cell {b['name']} ({b['inputs']} -> {b['outputs']}), the call must be refused", extra={"step": step, "site": k})
                    return
            if ok:
                removed_by_caller -= {f"{op['name']}.{p}" for p in b["inputs"] + b["outputs"]}
        elif k == "add_subcircuit":
            kw = {}
            if "strip_io" in op:
                kw["strip_io"] = op["strip_io"]
                ctx.count("add_subcircuit_strip_io_false")
            ok, r = ctx.call(c.add_subcircuit, (c if op["child"] == -1 else kids[op["child"]]), op["name"], dict(op["connections"]), **kw)
            label = f"add_subcircuit(ch{op['child']},{op['name']!r},{op['connections']},{kw})"
            key = k
        else:
            ok, r = ctx.call(c.fill_blackbox, op["name"], (c if op["child"] == -1 else kids[op["child"]]))
            label = f"fill_blackbox({op['name']!r},ch{op['child']})"
            key = k
        types, edges, outs, bbs = state(c)
        ctx.count(f"{key}:{'ok' if ok else 'rejected'}")
        ctx.count("calls")
        if ok:
            n_ok += 1
        else:
            n_rej += 1
        what = f"step {step} {label} -> {'returned ' + repr(r) if ok else 'raised ' + repr(r)}"
        if ok and k in ("add_subcircuit", "fill_blackbox") and op["child"] == -1:
            # the copy carries the instances of the circuit as the caller left them (pins the caller removed or replaced)
            removed_by_caller |= {f"{op['name']}_{x}" for x in removed_by_caller}
            ctx.count("self_as_child_accepted")
        if ok and k in ("add_subcircuit", "fill_blackbox"):
            # an instance name that is already taken is an illegal name: the nested instances of the child are
            # registered as <name>_<nested>
            taken = [f"{op['name']}_{nb}" for nb in (b_bbs if op["child"] == -1 else case["children"][op["child"]]["bbs"]) if f"{op['name']}_{nb}" in b_bbs]
            if taken:
                ctx.violation(f"instance_name_clash_accepted_by_{key}", f"{what}: instance name(s) {taken} were already registered, the call must be refused", extra={"step": step, "site": key})
                return
        if src is not None and state(src) != src_state:
            ctx.violation("sibling_circuit_changed", f"{what}: the circuit this one was derived from changed with it (shared state)", extra={"step": step, "site": key})
            return
        probs = invariant(types, edges, bbs, removed_by_caller)
        if probs:
            ctx.violation(f"invariant_after_{key}_{'ok' if ok else 'raise'}", f"{what}: {probs[:3]}", extra={"step": step, "site": key})
            return
        if not ok:
            added = edges - b_edges
            if added:
                ctx.violation(f"rejected_{key}_added_edges", f"{what}: the rejected call added edges {sorted(added)[:4]}", extra={"step": step, "site": key})
                return
            if not isinstance(r, ValueError):
                ghosts = False
                if k in ("remove", "disconnect", "set_output"):
                    ghosts = True
                if ghosts and isinstance(r, (KeyError,)):
                    ctx.count(f"note:{key}_nonexistent_{type(r).__name__}")
                elif k == "connect" and op.get("rep") in ("iter", "gen") and isinstance(r, TypeError):
                    ctx.count("note:connect_one_shot_iterable_TypeError")  # len() of an iterator: refused, nothing added
                else:
                    ctx.violation(f"rejected_{key}_exception_type", f"{what}: rejected with {type(r).__name__} instead of ValueError", extra={"step": step, "site": key})
                    return
        if k == "add" and op["uid"] and ok:
            if r in b_types:
                ctx.violation("uid_reused_name", f"{what}: uid=True returned the existing name {r!r}")
                return
            for n, t in b_types.items():
                if types.get(n) != t or outs.get(n) != b_outs.get(n):
                    ctx.violation("uid_changed_node", f"{what}: existing node {n!r} changed")
                    return
            if not b_edges <= edges:
                ctx.violation("uid_removed_edges", f"{what}: edges {sorted(b_edges - edges)[:3]} disappeared")
                return
            if r != op["n"]:
                ctx.count("uid_renamed")
    if (len(case["ops"]) < 5 or not n_ok or not n_rej) and not case.get("storm"):
        ctx.trivial()
    ctx.count("states_observed", len(case["ops"]))


def gates(counters, table, tier):
    out = []
    for k in ("add", "add_uid", "connect", "add_blackbox", "add_subcircuit", "fill_blackbox"):
        for o in ("ok", "rejected"):
            if counters.get(f"{k}:{o}", 0) < 5:
                out.append(f"{k} never {o} ({counters.get(f'{k}:{o}', 0)})")
    for k in ("disconnect:ok", "remove:ok", "set_output:ok", "uid_renamed", "uid_storm", "add_uid_with_allow_redefinition", "add_subcircuit_strip_io_false", "connect_rep:iter", "connect_rep:set", "connect_rep:tuple", "start_derived_by:strip_inputs", "add_blackbox_unknown_pin_names_other_node", "self_as_child_accepted", "start_derived_by:copy", "start_derived_by:relabel"):
        if counters.get(k, 0) < 5:
            out.append(f"{k} seen {counters.get(k, 0)} times")
    if counters.get("calls", 0) < 10000 and tier == "quick":
        out.append(f"only {counters.get('calls', 0)} calls")
    return out
