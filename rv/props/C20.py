"""C20 - lint decides well-formedness, and library outputs pass it."""
import random

from rv.gen import circuits as G
from rv.gen import netlists as N
from rv.oracle import lintspec
from rv.oracle.sim import Net
from rv.props._util import own_lint

RULE = (
    "(a) random circuits (with blackboxes) corrupted directly on the underlying graph by 0..3 of: type attribute removed / unsupported, fan-in added to input/0/1/x/bb_output, second "
    "driver on buf/not/bb_input, second or non-buf load on bb_output, dotted name without instance, blackbox pin deleted or retyped, gate left undriven, node left unloaded, "
    "multi-input gate reduced to one input; all 16 flag combinations; lint must raise ValueError iff a re-statement of the documented rules finds an enabled rule violated, and "
    "nothing else; (b) outputs of the parsers, logic generators, fully connected composition calls and function-preserving transforms on lint-clean arguments must pass lint, also after a write->read round trip (bench, Verilog with both parsers) and after pipelines of 2..3 transforms (every stage linted). "
    "non-trivial = every case; distinct = canonical graph + flags / producer + argument"
)
BUDGET = {
    "quick": {"workers": 16, "cases": 1200, "secs": 60, "min_cases": 9600},
    "thorough": {"workers": 16, "rounds": 4, "cases": 3200, "secs": 420, "min_cases": 102400},
}
BUILD_VERDICTS = ("blackbox_definition_changed",)  # the registry is part of this property (see gen.circuits.Misbehaved)
ANCHORS = ["utils:lint"]

CORRUPTIONS = ["no_type", "bad_type", "fanin_on_source", "second_driver", "bbout_second_load", "bbout_nonbuf_load", "dotted_name", "pin_deleted", "pin_retyped", "undriven_gate", "unloaded_node", "single_input", "fanin_on_x", "fanin_on_bbout", "undriven_pin", "pin_direction_swapped", "two_dots_known_instance", "two_dots_unknown_instance", "stray_bbout_two_loads", "stray_bbout_gate_load"]
PRODUCERS = ["verilog", "fast_verilog", "bench", "adder", "mux", "popcount", "add_subcircuit", "fill_blackbox", "limit_fanin", "limit_fanout", "ternary", "acyclic_unroll", "insert_registers", "unroll", "sequential_unroll", "sensitization_transform", "sensitivity_transform", "miter_tied", "copy", "relabel", "strip_blackboxes_then_nothing", "supergates", "remove_unloaded", "strip_io", "strip_inputs", "strip_outputs", "add_blackbox_list", "bench_roundtrip", "verilog_roundtrip", "transform_pipeline", "onto_constant"]


def gen(rng, ctx):
    if rng.random() < 0.6:
        ni = rng.randint(1, 4)
        cd = G.rand_circuit(rng, ni, rng.randint(2, 8), max_fanin=4, p_const=0.3, allow_x=rng.random() < 0.3, ensure_loaded=rng.random() < 0.8)
        if rng.random() < 0.6:
            cd = G.add_blackboxes(rng, cd, rng.randint(1, 2), p_unconnected=0.15, bbdefs=[{"name": "rng", "inputs": [], "outputs": ["q"]}, {"name": "src2", "inputs": [], "outputs": ["a", "b"]}] if rng.random() < 0.2 else None)
        if cd["bbs"] and rng.random() < 0.2:
            # an instance whose name is <registered instance>.<suffix>: its pins carry two dots, no documented rule is violated
            host = rng.choice(sorted(cd["bbs"]))
            inst = f"{host}.{rng.choice(['ff0', 'q', 'x1'])}"
            drv = rng.choice([n for n, t, _ in cd["nodes"] if t not in ("bb_input", "bb_output")])
            cd["bbs"][inst] = {"name": "nested", "inputs": ["d"], "outputs": ["q"]}
            cd["nodes"] += [[f"{inst}.d", "bb_input", False], [f"{inst}.q", "bb_output", False], ["nest_w", "buf", True]]
            cd["edges"] += [[drv, f"{inst}.d"], [f"{inst}.q", "nest_w"]]
        ncor = rng.choice([0, 1, 1, 1, 2, 3])
        cors = [[rng.choice(CORRUPTIONS), rng.getrandbits(30)] for _ in range(ncor)]
        flags = {"fail_fast": rng.random() < 0.5, "unloaded": rng.random() < 0.4, "undriven": rng.random() < 0.7, "single_input_gates": rng.random() < 0.4}
        return {"half": "a", "c": cd, "corruptions": cors, "flags": flags}
    prod = PRODUCERS[(ctx.gen_index + ctx.index) % len(PRODUCERS)] if rng.random() < 0.5 else rng.choice(PRODUCERS)
    case = {"half": "b", "producer": prod, "seed": rng.getrandbits(32)}
    if prod in ("verilog", "fast_verilog"):
        nl = N.gen_netlist(rng, "fast" if prod == "fast_verilog" else "full", max_stmts=8, nbb=rng.choice([0, 1]))
        # fully connected instances only: an unconnected pin is not a lint-clean argument
        for s in nl["stmts"]:
            if s["k"] == "bb":
                s["pins"] = [[p, (n if isinstance(n, (str, list)) and n != "__omit__" else nl["inputs"][0])] for p, n in s["pins"] if p in nl["bbdefs"][s["type"]]["inputs"]] + [[p, n] for p, n in s["pins"] if p in nl["bbdefs"][s["type"]]["outputs"] and isinstance(n, str) and n != "__omit__"]
        case["nl"] = nl
        case["text"] = N.render(rng, nl, layout="writer" if prod == "fast_verilog" else "free")
    elif prod == "bench":
        from rv.props.C15 import gen_text

        case.update(gen_text(rng, False))
    elif prod in ("adder", "mux", "popcount"):
        case["w"] = rng.randint(1, 12)
    else:
        ni = rng.randint(1, 4)
        case["c"] = G.rand_circuit(rng, ni, rng.randint(2, 8), max_fanin=5, p_wide=0.3, p_const=0.15)
        if prod in ("limit_fanin", "limit_fanout", "copy", "relabel", "strip_io", "strip_inputs", "strip_outputs") and rng.random() < 0.6:
            case["c"] = G.add_blackboxes(rng, case["c"], 1)
        if prod == "remove_unloaded":
            cd = G.add_blackboxes(rng, G.rand_circuit(rng, ni, rng.randint(2, 6), max_fanin=3), rng.randint(1, 2))
            k = 0
            for n, t, o in list(cd["nodes"]):
                if n.endswith("_w") and rng.random() < 0.7:
                    # the net driven by a blackbox output now feeds only dead logic
                    for x in cd["nodes"]:
                        if x[0] == n:
                            x[2] = False
                    cd["edges"] = [e for e in cd["edges"] if e[0] != n]
                    cd["nodes"].append([f"dz{k}", rng.choice(["not", "buf", "and"]), False])
                    cd["edges"].append([n, f"dz{k}"])
                    if rng.random() < 0.5:
                        cd["nodes"].append([f"dy{k}", "nor", False])
                        cd["edges"] += [[f"dz{k}", f"dy{k}"], [rng.choice([m for m, tt, _ in cd["nodes"] if tt == "input"]), f"dy{k}"]]
                    k += 1
            case["c"] = cd
        if prod == "acyclic_unroll" and rng.random() < 0.6:
            case["c"] = G.add_cycles(rng, case["c"], rng.randint(1, 2))
        if prod == "sequential_unroll" or prod == "strip_blackboxes_then_nothing":
            case["c"] = G.add_blackboxes(rng, case["c"], rng.randint(1, 2), bbdefs=[{"name": "ff", "inputs": ["clk", "d"], "outputs": ["q"]}])
        if prod == "strip_blackboxes_then_nothing" and rng.random() < 0.6:
            cd = case["c"]
            drv = [n for n, t, _ in cd["nodes"] if t not in ("bb_input", "bb_output")]
            cd["bbs"]["uq"] = {"name": "ffq", "inputs": ["CP", "D"], "outputs": ["Q", "QN"]}
            cd["nodes"] += [["uq.CP", "bb_input", False], ["uq.D", "bb_input", False], ["uq.Q", "bb_output", False], ["uq.QN", "bb_output", False], ["uq_w", "buf", True]]
            cd["edges"] += [[rng.choice(drv), "uq.CP"], [rng.choice(drv), "uq.D"], ["uq.Q", "uq_w"]]
        if prod == "bench_roundtrip":
            case["c"] = G.rand_circuit(rng, ni, rng.randint(2, 8), max_fanin=5, p_wide=0.3, p_const=0.6, p_const_output=0.3)
        if prod == "verilog_roundtrip" and rng.random() < 0.5:
            case["c"] = G.add_blackboxes(rng, case["c"], rng.randint(1, 2))
        case["c2"] = G.rand_circuit(rng, rng.randint(1, 2), rng.randint(1, 4), max_fanin=3, name="kid", in_prefix="a", gate_prefix="y", n_outputs=1, p_input_output=0.0)
        case["k"] = rng.randint(2, 4)
    return case


def corrupt(cg, c, cors):
    """Apply corruptions on the raw graph; returns list of applied kinds."""
    g = c.graph
    applied = []
    for kind, seed in cors:
        rng = random.Random(seed)
        nodes = list(g.nodes)
        ty = {n: g.nodes[n].get("type") for n in nodes}
        pick = lambda pred: (lambda l: rng.choice(l) if l else None)([n for n in nodes if pred(n)])
        if kind == "no_type":
            n = pick(lambda n: "type" in g.nodes[n])
            if n:
                del g.nodes[n]["type"]
                applied.append(kind)
        elif kind == "bad_type":
            n = pick(lambda n: True)
            if n:
                g.nodes[n]["type"] = rng.choice(["mux", "AND", "", "output", ["and"], {"type": "and"}, None, 7])  # also values that cannot be hashed
                applied.append(kind)
        elif kind in ("fanin_on_source", "fanin_on_x", "fanin_on_bbout"):
            want = {"fanin_on_source": ("input", "0", "1"), "fanin_on_x": ("x",), "fanin_on_bbout": ("bb_output",)}[kind]
            n = pick(lambda n: ty[n] in want)
            if n is None and kind == "fanin_on_x":
                g.add_node("zz_x", type="x", output=True)
                n = "zz_x"
            d = pick(lambda m: ty[m] in G.ALL_GATES + ["input"])
            if n and d and n != d:
                g.add_edge(d, n)
                applied.append(kind)
        elif kind == "second_driver":
            n = pick(lambda n: ty[n] in ("buf", "not", "bb_input") and g.in_degree(n) >= 1)
            d = pick(lambda m: ty[m] in G.ALL_GATES + ["input"] and not g.has_edge(m, n) and m != n)
            if n and d:
                g.add_edge(d, n)
                applied.append(kind)
        elif kind == "bbout_second_load":
            n = pick(lambda n: ty[n] == "bb_output" and g.out_degree(n) >= 1)
            if n:
                g.add_node("zz_b2", type="buf", output=True)
                g.add_edge(n, "zz_b2")
                applied.append(kind)
        elif kind == "bbout_nonbuf_load":
            n = pick(lambda n: ty[n] == "bb_output" and g.out_degree(n) == 1)
            if n:
                (m,) = list(g.successors(n))
                g.nodes[m]["type"] = rng.choice(["and", "not", "or"])
                applied.append(kind)
        elif kind == "dotted_name":
            g.add_node("nosuchinst.p", type="buf", output=True)
            src = pick(lambda m: ty[m] in G.ALL_GATES + ["input"])
            if src:
                g.add_edge(src, "nosuchinst.p")
            applied.append(kind)
        elif kind in ("two_dots_known_instance", "two_dots_unknown_instance"):
            # names with two dots: the documented rule looks at the part before the FIRST dot
            insts = sorted(c.blackboxes)
            src = pick(lambda m: ty[m] in G.ALL_GATES + ["input"])
            if src and (insts or kind == "two_dots_unknown_instance"):
                nm = f"{rng.choice(insts)}.int.n" if kind == "two_dots_known_instance" else "nosuch.u0.d"
                g.add_node(nm, type="buf", output=True)
                g.add_edge(src, nm)
                applied.append(kind)
        elif kind in ("stray_bbout_two_loads", "stray_bbout_gate_load"):
            # a bb_output node that is not a declared pin of any instance is still a bb_output
            g.add_node("zz_bo", type="bb_output", output=False)
            g.add_node("zz_l0", type="buf" if kind == "stray_bbout_two_loads" else "not", output=True)
            g.add_edge("zz_bo", "zz_l0")
            if kind == "stray_bbout_two_loads":
                g.add_node("zz_l1", type="buf", output=True)
                g.add_edge("zz_bo", "zz_l1")
            applied.append(kind)
        elif kind == "pin_deleted":
            n = pick(lambda n: ty[n] in ("bb_input", "bb_output"))
            if n:
                g.remove_node(n)
                applied.append(kind)
        elif kind == "pin_retyped":
            n = pick(lambda n: ty[n] in ("bb_input",))
            if n:
                g.nodes[n]["type"] = "buf"
                g.nodes[n]["output"] = True
                applied.append(kind)
        elif kind == "pin_direction_swapped":
            # an input pin typed bb_output (only when undriven, so that no other rule fires) or an output pin typed bb_input
            n = pick(lambda n: (ty[n] == "bb_input" and g.in_degree(n) == 0) or ty[n] == "bb_output")
            if n:
                g.nodes[n]["type"] = "bb_output" if ty[n] == "bb_input" else "bb_input"
                applied.append(kind)
        elif kind == "undriven_gate":
            n = pick(lambda n: ty[n] in G.ALL_GATES and g.in_degree(n) >= 1)
            if n:
                g.remove_edges_from(list(g.in_edges(n)))
                applied.append(kind)
        elif kind == "undriven_pin":
            n = pick(lambda n: ty[n] == "bb_input" and g.in_degree(n) >= 1)
            if n:
                g.remove_edges_from(list(g.in_edges(n)))
                applied.append(kind)
        elif kind == "unloaded_node":
            n = pick(lambda n: ty[n] in G.ALL_GATES + ["input", "0", "1"])
            if n:
                g.remove_edges_from(list(g.out_edges(n)))
                g.nodes[n]["output"] = False
                applied.append(kind)
        elif kind == "single_input":
            n = pick(lambda n: ty[n] in G.GATESN and g.in_degree(n) >= 2)
            if n:
                for e in list(g.in_edges(n))[1:]:
                    g.remove_edge(*e)
                applied.append(kind)
    return applied


def check_a(case, ctx):
    cg = ctx.cg
    c = G.build(cg, case["c"], "graph")
    applied = corrupt(cg, c, case["corruptions"])
    if any("." in k for k in c.blackboxes):
        ctx.count("instance_named_like_pin_of_instance")
    for k in applied:
        ctx.count(f"corruption:{k}")
    if not applied:
        ctx.count("corruption:none")
    g = c.graph
    types = {n: g.nodes[n].get("type", lintspec.MISSING) for n in g.nodes}
    preds = {n: list(g.pred[n]) for n in g.nodes}
    succs = {n: list(g.succ[n]) for n in g.nodes}
    outs = {n: bool(g.nodes[n].get("output")) for n in g.nodes}
    bbs = {k: (b.name, frozenset(b.input_set), frozenset(b.output_set)) for k, b in c.blackboxes.items()}
    fl = case["flags"]
    definite, ambiguous = lintspec.violations(types, preds, succs, outs, bbs, unloaded=fl["unloaded"], undriven=fl["undriven"], single_input_gates=fl["single_input_gates"])
    ok, r = ctx.call(cg.lint, c, **fl)
    ctx.count("cmp:lint")
    ctx.count(f"fail_fast={fl['fail_fast']}")
    ctx.count("flags:" + "".join(str(int(fl[k])) for k in ("unloaded", "undriven", "single_input_gates")))
    what = f"lint({fl}) after corruptions {applied}"
    if not ok and not isinstance(r, ValueError):
        ctx.violation("lint_wrong_exception", f"{what} raised {type(r).__name__}: {r!r} (documented: ValueError); rules violated: {definite[:3]}", extra={"corruptions": applied})
        return
    if definite:
        ctx.count("expect_raise")
        if len({d.split(":")[0] for d in definite}) == 1:
            ctx.count("single_rule:" + definite[0].split(":")[0].split(" ")[0])
        if ok:
            ctx.violation("lint_missed", f"{what} accepted a circuit that violates: {definite[:4]}", extra={"corruptions": applied})
    elif ambiguous:
        ctx.count("verdict_depends_on_undocumented_pin_rule")
    else:
        ctx.count("expect_pass")
        if not ok:
            ctx.violation("lint_false_alarm", f"{what} raised {r!r} although no documented rule is violated", extra={"corruptions": applied})


def produce(case, ctx):
    cg = ctx.cg
    prod = case["producer"]
    rng = random.Random(case["seed"])
    if prod in ("verilog", "fast_verilog"):
        nl = case["nl"]
        bbs = [cg.BlackBox(t, list(d["inputs"]), list(d["outputs"])) for t, d in sorted(nl["bbdefs"].items())]
        return [cg.io.verilog_to_circuit(case["text"], nl["name"], blackboxes=bbs, fast=prod == "fast_verilog")]
    if prod == "bench":
        return [cg.io.bench_to_circuit(case["text"], "bt")]
    if prod in ("adder", "popcount") and rng.random() < 0.5:
        # the caller edits the blocks it was handed earlier (an enable input on the carry gate); blocks generated
        # afterwards must not be built from those edited objects
        for blk in (cg.logic.half_adder(), cg.logic.full_adder()):
            multi = sorted(n for n in blk.nodes() if blk.type(n) in G.GATESN)
            blk.add("zz_en", "input")
            if multi:
                blk.connect("zz_en", multi[0])
            blk.add("zz_probe", "buf", output=True)
        ctx.count("logic_blocks_edited_before_generation")
    if prod == "adder":
        return [cg.logic.adder(case["w"], rng.random() < 0.5, rng.random() < 0.5), cg.logic.half_adder(), cg.logic.full_adder()]
    if prod == "mux":
        return [cg.logic.mux(case["w"])]
    if prod == "popcount":
        return [cg.logic.popcount(case["w"])]
    c = G.build(cg, case["c"], "graph")
    cg.lint(c)  # the argument must be lint-clean, otherwise the case is a generator error
    kid = G.build(cg, case["c2"], "graph")
    k = case["k"]
    if prod == "add_subcircuit":
        p = c.copy()
        conns = {}
        srcs = sorted(n for n in p.nodes() if p.type(n) in G.ALL_GATES + ["input"])
        for i in sorted(kid.inputs()):
            conns[i] = rng.choice(srcs)
        for j, o in enumerate(sorted(kid.outputs())):
            p.add(f"zz_hole{j}", "buf", output=True)
            conns[o] = f"zz_hole{j}"
        p.add_subcircuit(kid, "I", conns)
        return [p]
    if prod == "fill_blackbox":
        p = c.copy()
        bb = cg.BlackBox("kidbb", sorted(kid.inputs()), sorted(kid.outputs()))
        conns = {}
        srcs = sorted(n for n in p.nodes() if p.type(n) in G.ALL_GATES + ["input"])
        for i in sorted(kid.inputs()):
            conns[i] = rng.choice(srcs)
        for j, o in enumerate(sorted(kid.outputs())):
            p.add(f"zz_hole{j}", "buf", output=True)
            conns[o] = f"zz_hole{j}"
        p.add_blackbox(bb, "I", conns)
        if rng.random() < 0.5:
            # another instance of the same cell whose name begins with "I" stays unfilled
            conns2 = {}
            for i in sorted(kid.inputs()):
                conns2[i] = rng.choice(srcs)
            for j, o in enumerate(sorted(kid.outputs())):
                p.add(f"zz_hole2_{j}", "buf", output=True)
                conns2[o] = f"zz_hole2_{j}"
            p.add_blackbox(bb, rng.choice(["I1", "I_1", "I10"]), conns2)
            ctx.count("fill_next_to_instance_with_prefix_name")
        mid = p.copy()
        p.fill_blackbox("I", kid)
        return [mid, p]
    if prod == "limit_fanin":
        return [cg.tx.limit_fanin(c, k)]
    if prod == "limit_fanout":
        return [cg.tx.limit_fanout(c, k)]
    if prod == "ternary":
        return [cg.tx.ternary(c)[0]]
    if prod == "acyclic_unroll":
        return [cg.tx.acyclic_unroll(c)]
    if prod == "insert_registers":
        from rv.oracle.graphdefs import levels

        maxd = max(levels(Net.of(c).preds).values())
        st = rng.randint(1, 3)
        if round(maxd / (st + 1)) < 1:
            return []
        return [cg.tx.insert_registers(c, st)]
    if prod == "unroll":
        ins = sorted(c.inputs())
        outs = sorted(o for o in c.outputs() if o not in ins)
        sio = {outs[0]: ins[0]} if outs and rng.random() < 0.7 else {}
        return [cg.tx.unroll(c, rng.randint(1, 3), sio)[0]]
    if prod == "sequential_unroll":
        return [cg.tx.sequential_unroll(c, rng.randint(1, 3), "d", "q", ["clk"], add_flop_outputs=rng.random() < 0.5, initial_values=rng.choice([None, "0", "1"]))[0]]
    if prod == "sensitization_transform":
        n = rng.choice(sorted(c.nodes()))
        return [cg.tx.sensitization_transform(c, n)]
    if prod == "sensitivity_transform":
        cands = sorted(n for n in c.nodes() if c.startpoints(n))
        return [cg.tx.sensitivity_transform(c, rng.choice(cands))] if cands else []
    if prod == "miter_tied":
        return [cg.tx.miter(c), cg.tx.miter(c, G.build(cg, G.rewrite_equiv(rng, case["c"], 2), "graph"))]
    if prod == "copy":
        return [c.copy()]
    if prod == "relabel":
        n = rng.choice(sorted(x for x in c.nodes() if "." not in x))
        return [cg.tx.relabel(c, {n: "zz_renamed"})]
    if prod == "strip_blackboxes_then_nothing":
        if "uq.QN" in c.graph.nodes:
            # a flop with an open QN pin: that pin (or the clock) is ignored, named as str or in a container
            pin = rng.choice(["QN", "CP"])
            form = rng.choice(["str", "str", "list", "tuple", "set"])
            ctx.count(f"strip_blackboxes:{form}_ignore_pin")
            arg = {"str": pin, "list": [pin], "tuple": (pin,), "set": {pin}}[form]
            return [cg.tx.strip_blackboxes(c), cg.tx.strip_blackboxes(c, ignore_pins=arg), cg.tx.strip_blackboxes(c, arg)]
        return [cg.tx.strip_blackboxes(c)]
    if prod == "supergates":
        return list(cg.tx.supergates(c))
    if prod in ("strip_io", "strip_inputs", "strip_outputs"):
        return [getattr(cg.tx, prod)(c)]
    if prod == "add_blackbox_list":
        # connection values given as lists: either rejected (ValueError) or the result must be well formed
        p = c.copy()
        p.add("zz_q0", "buf", output=True)
        p.add("zz_q1", "buf", output=True)
        srcs = sorted(n for n in p.nodes() if p.type(n) in G.ALL_GATES + ["input"] and not n.startswith("zz_"))
        bb = cg.BlackBox("lst", ["d"], ["q"])
        try:
            p.add_blackbox(bb, "zz_u", {"d": [srcs[0]] if len(srcs) < 2 or rng.random() < 0.5 else srcs[:2], "q": ["zz_q0", "zz_q1"] if rng.random() < 0.7 else ["zz_q0"]})
        except ValueError:
            pass
        # an undriven buffer left by a rejected call is the caller's business
        for n in ("zz_q0", "zz_q1"):
            if not p.fanin(n):
                p.remove(n)
        return [p]
    if prod == "remove_unloaded":
        p = c.copy()
        p.remove_unloaded()
        return [p]
    if prod == "onto_constant":
        # connections aimed at tie-offs of every kind: refused (ValueError) or the result must be well formed
        p = c.copy()
        kind = rng.choice(["0", "1", "x"])
        p.add("zz_tie", kind, output=True)
        src = sorted(n for n in p.nodes() if p.type(n) in G.ALL_GATES + ["input"])[0]
        route = rng.choice(["connect", "add_fanout", "add_subcircuit"])
        ctx.count(f"onto_constant:{kind}:{route}")
        try:
            if route == "connect":
                p.connect(src, "zz_tie")
            elif route == "add_fanout":
                p.add("zz_drv", "buf", fanin=src, fanout="zz_tie", output=True)
            else:
                p.add_subcircuit(kid, "I", {sorted(kid.outputs())[0]: "zz_tie"})
        except ValueError:
            ctx.count("onto_constant:refused")
        return [p]
    if prod == "bench_roundtrip":
        # the writer's text must read back as a well-formed circuit (write -> read pipeline)
        return [cg.io.bench_to_circuit(cg.io.circuit_to_bench(c), c.name)]
    if prod == "verilog_roundtrip":
        bbs = list({id(b): b for b in c.blackboxes.values()}.values())
        text = cg.io.circuit_to_verilog(c)
        return [cg.io.verilog_to_circuit(text, c.name, blackboxes=bbs), cg.io.verilog_to_circuit(text, c.name, blackboxes=bbs, fast=True)]
    if prod == "transform_pipeline":
        # the output of one transform is the input of the next; every stage must be well formed
        stages = {
            "limit_fanin": lambda x: cg.tx.limit_fanin(x, rng.randint(2, 3)),
            "limit_fanout": lambda x: cg.tx.limit_fanout(x, rng.randint(2, 3)),
            "ternary": lambda x: cg.tx.ternary(x)[0],
            "copy": lambda x: x.copy(),
            "relabel": lambda x: cg.tx.relabel(x, {sorted(n for n in x.nodes() if "." not in n)[0]: f"zz_first{len(out)}"}),
            "miter": lambda x: cg.tx.miter(x),
            "unroll": lambda x: cg.tx.unroll(x, 2, {})[0],
            "bench": lambda x: cg.io.bench_to_circuit(cg.io.circuit_to_bench(x), x.name),
            "verilog": lambda x: cg.io.verilog_to_circuit(cg.io.circuit_to_verilog(x), x.name),
        }
        out = []
        cur = c
        names = [rng.choice(sorted(stages)) for _ in range(rng.randint(2, 3))]
        for nm_ in names:
            if nm_ in ("bench", "miter") and not cur.inputs():
                break
            cur = stages[nm_](cur)
            out.append(cur)
            ctx.count(f"pipeline_stage:{nm_}")
        return out
    raise ValueError(prod)


def check_b(case, ctx):
    cg = ctx.cg
    prod = case["producer"]
    ok, res = ctx.call(produce, case, ctx)
    if not ok:
        if prod == "supergates" and "NetworkXUnfeasible" in repr(res):
            ctx.count("producer_failed_known:supergates")
            return
        if prod == "miter_tied" and isinstance(res, ValueError):
            ctx.count("producer_rejected")
            return
        ctx.count(f"producer_failed:{prod}")
        ctx.notes.append(f"producer {prod} raised {res!r}")
        # a producer that fails is judged by its own property (C02..C18), not here
        return
    for r in res:
        ctx.count(f"produced:{prod}")
        # the io-stripping helpers intentionally leave undriven nodes; every other rule still applies
        okl, e = ctx.call(cg.lint, r, undriven=prod not in ("strip_io", "strip_inputs"))
        probs = own_lint(Net.of(r))
        if not okl:
            ctx.violation("library_output_fails_lint", f"result of {prod} on a lint-clean argument fails lint: {e!r}", extra={"producer": prod})
            return
        if probs:
            ctx.violation("library_output_illformed", f"result of {prod} passes lint but is not well formed: {probs[:3]}", extra={"producer": prod})
            return


def check(case, ctx):
    ctx.count(f"half:{case['half']}")
    if case["half"] == "a":
        check_a(case, ctx)
    else:
        check_b(case, ctx)


def gates(counters, table, tier):
    out = []
    for k in CORRUPTIONS:
        if counters.get(f"corruption:{k}", 0) < 20:
            out.append(f"corruption {k} applied {counters.get(f'corruption:{k}', 0)} times")
    for p in PRODUCERS:
        if counters.get(f"produced:{p}", 0) < 3:
            out.append(f"producer {p} delivered {counters.get(f'produced:{p}', 0)} circuits")
    for k in ("expect_raise", "expect_pass", "fail_fast=True", "fail_fast=False", "corruption:none", "instance_named_like_pin_of_instance", "strip_blackboxes:str_ignore_pin"):
        if counters.get(k, 0) < 20:
            out.append(f"{k} seen {counters.get(k, 0)} times")
    return out
