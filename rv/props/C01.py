"""C01 - Tseitin CNF / solve() is exact for circuit semantics."""
from rv.gen import circuits as G
from rv.oracle import cnfeval, sim
from rv.oracle.sim import Net

RULE = (
    "random lint-clean circuits <=12 nodes (thorough <=14): all 8 gate types at fan-in 1..6, constants, "
    "blackbox pins, back edges (cyclic), hostile names (xor_<a>_<b>, xor_inv_<n>, underscore-ambiguous "
    "pairs); (a) the clause list returned by sat.cnf is evaluated for ALL assignments of its variables "
    "bit-parallel, projected onto node variables and compared with the set of consistent valuations; (b) "
    "sat.solve under random partial assumptions is compared with that set; (c) bundled netlists with full "
    "input assignments vs reference simulation; (d) circuits of 15..90 nodes (deep chains, hubs, 17..40-operand gates) and single gates with 2..70 operands, decided by simulation over the free signals plus a bit-parallel DPLL on the clause list.  non-trivial = >=1 multi-input gate and >=2 free signals; "
    "distinct = canonical circuit + assumption lists"
)
BUDGET = {
    "quick": {"workers": 16, "cases": 450, "secs": 60, "min_cases": 3600},
    "thorough": {"workers": 16, "rounds": 4, "cases": 1300, "secs": 420, "min_cases": 41600},
}
SIBLINGS = True  # consecutive cases with identical structure and different gate types
ANCHORS = ["sat:cnf", "sat:solve", "sat:construct_solver", "sat:add_assumptions"]

LIBS_QUICK = ["c17", "s27"]
LIBS_THOROUGH = ["c17", "s27", "c432", "c499", "c880", "c1355"]
_lib_cache = {}


def hostile_names(rng, cd):
    """Rename nodes so that they look like the encoder's auxiliary variables."""
    preds = G.cd_preds(cd)
    tps = G.cd_types(cd)
    names = [n for n, _, _ in cd["nodes"]]
    par = [n for n in names if tps[n] in ("xor", "xnor") and len(preds[n]) >= 3]
    xn = [n for n in names if tps[n] == "xnor" and len(preds[n]) >= 2]
    mode = rng.choice(["pair", "inv", "ambig", "pair"])
    try:
        if mode == "pair" and par:
            g = rng.choice(par)
            a, b = rng.sample(preds[g], 2)
            victim = rng.choice([n for n in names if n not in (a, b)])
            return G.cd_rename(cd, {victim: f"xor_{a}_{b}"}), "hostile:xor_a_b"
        if mode == "inv" and xn:
            g = rng.choice(xn)
            victim = rng.choice([n for n in names if n != g])
            return G.cd_rename(cd, {victim: f"xor_inv_{g}"}), "hostile:xor_inv"
        if mode == "ambig" and len(par) >= 1:
            g = rng.choice(par)
            f = preds[g]
            # two of g's fan-ins become 'a','b_c'; find another parity gate for 'a_b','c'
            others = [h for h in par if h != g]
            m = {f[0]: "a", f[1]: "b_c"}
            if others:
                h = rng.choice(others)
                fh = [x for x in preds[h] if x not in m]
                if len(fh) >= 2:
                    m[fh[0]] = "a_b"
                    m[fh[1]] = "c"
            else:
                rest = [n for n in names if n not in m]
                if rest:
                    m[rng.choice(rest)] = "xor_a_b_c"
            return G.cd_rename(cd, m), "hostile:ambiguous"
    except (ValueError, IndexError):
        pass
    return cd, None


def gen_widegate(rng):
    """One gate with 2..70 operands: a few primary inputs directly, the rest non-controlling fillers (constants and
    tautology / contradiction gates), so that each input alone decides the gate under some valuation."""
    t = rng.choice(G.GATESN)
    w = rng.choice([rng.randint(2, 16), 16, 17, 18, 29, 30, 31, 32, 33, 40, 48, 63, 64, 65, rng.randint(17, 70)])
    k = min(w, rng.randint(4, 10))
    cd = G.new_cdict("wide")
    ins = [f"i{j}" for j in range(k)]
    for n in ins:
        cd["nodes"].append([n, "input", False])
    ops = list(ins)
    neutral = "1" if t in ("and", "nand") else "0"
    j = 0
    while len(ops) < w:
        r = rng.random()
        n = f"f{j}"
        j += 1
        if r < 0.4:
            cd["nodes"].append([n, neutral, False])
        elif r < 0.9:
            a = rng.choice(ins)
            cd["nodes"].append([n + "n", "not", False])
            cd["edges"].append([a, n + "n"])
            cd["nodes"].append([n, "or" if neutral == "1" else "and", False])
            cd["edges"] += [[a, n], [n + "n", n]]
        else:
            a, b = rng.choice(ins), rng.choice(ins)
            cd["nodes"].append([n, rng.choice(["or", "and", "xor"]) if a != b else "buf", False])
            cd["edges"] += [[a, n]] + ([[b, n]] if a != b else [])
        ops.append(n)
    cd["nodes"].append(["g", t, True])
    for o in ops:
        cd["edges"].append([o, "g"])
    cd["nodes"].append(["gn", "not", True])
    cd["edges"].append(["g", "gn"])
    if rng.random() < 0.5:
        cd = G.shuffle_nodes(rng, cd)
    nodes = [n for n, _, _ in cd["nodes"]]
    assumps = [{"g": rng.random() < 0.5}, {"gn": True, rng.choice(ins): False}, {n: rng.random() < 0.5 for n in rng.sample(nodes, min(4, len(nodes)))}, {}]
    return {"c": cd, "kind": "large", "widegate": [t, w], "assumps": assumps, "probe": ["g", "gn"] + rng.sample(nodes, min(4, len(nodes))), "via": "graph"}


def gen(rng, ctx):
    big = ctx.tier == "thorough"
    r = rng.random()
    if rng.random() < 0.025:
        return gen_widegate(rng)
    if r < (0.06 if big else 0.03):
        libs = LIBS_THOROUGH if big else LIBS_QUICK
        return {"lib": rng.choice(libs), "vecs": [rng.getrandbits(64) for _ in range(3 if not big else 6)], "seed": rng.getrandbits(32)}
    if r < (0.16 if big else 0.10):
        # larger acyclic circuits: too many variables for the exhaustive clause evaluation, decided by
        # bit-parallel simulation over the free signals and the bit-parallel DPLL on the clause list
        ni = rng.randint(3, 10 if big else 8)
        cd = G.rand_circuit(rng, ni, rng.randint(15, 45 if big else 30), max_fanin=5, p_wide=0.25, p_const=0.2, p_large=0.25)
        if rng.random() < 0.3:
            cd = G.add_blackboxes(rng, cd, 1, p_unconnected=0.0)
        nodes = [n for n, _, _ in cd["nodes"]]
        assumps = [{n: rng.random() < 0.5 for n in rng.sample(nodes, rng.randint(0, min(5, len(nodes))))} for _ in range(4)]
        return {"c": cd, "kind": "large", "assumps": assumps, "probe": rng.sample(nodes, min(10, len(nodes))), "via": "graph"}
    maxn = 14 if big else 12
    ni = rng.randint(1, 5)
    ng = rng.randint(1, maxn - ni - 1)
    force = None
    if rng.random() < 0.5:
        t = rng.choice(G.GATESN)
        force = (t, rng.choice([1, 2, 3, 3, 4, 5, 6]))
    cd = G.rand_circuit(rng, ni, ng, max_fanin=6, force=force, p_wide=0.3, p_const=0.2, p_large=0)  # all-node oracle: size bounded by maxn
    kind = "acyclic"
    if rng.random() < 0.2 and len(cd["nodes"]) <= maxn - 4:
        cd = G.add_blackboxes(rng, cd, 1, bbdefs=[{"name": "one", "inputs": ["p"], "outputs": ["o"]}, {"name": "ff", "inputs": ["d"], "outputs": ["q"]}], p_unconnected=0.0)
        kind = "pins"
    if rng.random() < 0.2:
        cd = G.add_cycles(rng, cd, rng.randint(1, 2))
        kind = "cyclic" if kind == "acyclic" else "cyclic+pins"
    elif rng.random() < 0.06:
        # self-loop: a gate that reads itself (for single-input gates the loop replaces the driver)
        gts = [n for n, t, _ in cd["nodes"] if t in G.ALL_GATES]
        if gts:
            g = rng.choice(gts)
            tg = G.cd_types(cd)[g]
            pg = G.cd_preds(cd)[g]
            if tg in G.GATES1 or (len(pg) == 1 and rng.random() < 0.5):
                cd["edges"] = [e for e in cd["edges"] if e[1] != g]
            if [g, g] not in cd["edges"]:
                cd["edges"].append([g, g])
            # the former driver may have lost its only load
            loaded = {u for u, _ in cd["edges"]}
            cd["nodes"] = [[n, t, o or (n not in loaded and t != "bb_input")] for n, t, o in cd["nodes"]]
            kind = "selfloop"
    if kind == "acyclic" and rng.random() < 0.12 and len(cd["nodes"]) <= maxn - 2:
        cd = G.add_shared_parity(rng, cd)
        kind = "acyclic"  # counted separately below
        shared_parity = True
    else:
        shared_parity = False
    tag = None
    if rng.random() < 0.35:
        cd, tag = hostile_names(rng, cd)
    nodes = [n for n, _, _ in cd["nodes"]]
    tps = G.cd_types(cd)
    assumps = []
    for _ in range(4):
        mode = rng.choice(["inputs", "internal", "outputs", "mixed", "complete", "empty"])
        if mode == "inputs":
            pool = [n for n in nodes if tps[n] in ("input", "bb_output")]
        elif mode == "internal":
            pool = [n for n in nodes if tps[n] not in ("input", "bb_output")]
        elif mode == "outputs":
            pool = G.cd_outputs(cd)
        elif mode == "empty":
            pool = []
        else:
            pool = nodes
        k = len(pool) if mode == "complete" else rng.randint(0, min(len(pool), 4))
        sel = rng.sample(pool, k) if pool else []
        assumps.append({n: rng.random() < 0.5 for n in sel})
    retype = None
    multi = [n for n in nodes if tps[n] in G.GATESN]
    if multi and rng.random() < 0.3:
        g = rng.choice(multi)
        retype = [g, rng.choice([t for t in G.GATESN if t != tps[g]])]
    edits = []
    if kind in ("acyclic", "pins") and rng.random() < 0.3 and len(nodes) <= maxn - 2:
        # the same object is asked again after in-place edits through different mutators
        for _ in range(rng.randint(1, 2)):
            op = rng.choice(["subcircuit", "subcircuit_const", "add", "connect", "disconnect"])
            gm = [n for n in nodes if tps[n] in G.GATESN]
            ins = [n for n in nodes if tps[n] == "input"]
            if op == "subcircuit":
                edits.append(["subcircuit", f"u{len(edits)}", False])
            elif op == "subcircuit_const":
                edits.append(["subcircuit_const", f"u{len(edits)}", True])
            elif op == "add" and len(nodes) >= 2:
                edits.append(["add", f"late{len(edits)}", rng.choice(G.GATESN), rng.sample([n for n in nodes if tps[n] != "bb_input"], 2)])
            elif op == "connect" and gm and ins:
                edits.append(["connect", rng.choice(ins), rng.choice(gm)])
            elif op == "disconnect" and gm:
                edits.append(["disconnect", rng.choice(gm)])
    return {"c": cd, "kind": kind, "hostile": tag, "assumps": assumps, "via": rng.choice(["graph", "api", "sparse"]), "val_int": rng.random() < 0.3, "retype": retype, "shared_parity": shared_parity, "edits": edits}


def _lib(ctx, name):
    if name not in _lib_cache:
        c = ctx.cg.from_lib(name)
        net = Net.of(c)
        _lib_cache[name] = (c, net, net.topo())
    return _lib_cache[name]


def check_lib(case, ctx):
    import random

    c, net, topo = _lib(ctx, case["lib"])
    ctx.count("class:lib")
    ctx.count(f"lib:{case['lib']}")
    free = net.free()
    rng = random.Random(case["seed"])
    for vec in case["vecs"]:
        rr = random.Random(vec)
        a = {n: rr.random() < 0.5 for n in free}
        want = sim.simulate(net, a, topo)
        ok, res = ctx.call(ctx.cg.sat.solve, c, dict(a))
        ctx.count("cmp:solve_lib")
        if not ok:
            ctx.violation("solve_raised", f"solve({case['lib']}, full input assignment) raised {res!r}")
        elif res is False:
            ctx.violation("solve_unsat_lib", f"solve({case['lib']}) returned False for a full assignment of the startpoints")
        else:
            bad = [n for n in want if res.get(n) != want[n]]
            if bad or set(res) != set(want):
                ctx.violation("solve_lib_value", f"solve({case['lib']}) disagrees with reference simulation at {bad[:5]}")
    # one output assumption: any returned model must be consistent
    outs = sorted(net.outputs)
    o = rng.choice(outs)
    val = rng.random() < 0.5
    ok, res = ctx.call(ctx.cg.sat.solve, c, {o: val})
    ctx.count("cmp:solve_lib_output")
    if ok and res is not False:
        want = sim.simulate(net, {n: res[n] for n in free}, topo)
        bad = [n for n in want if res.get(n) != want[n]]
        if bad or res[o] != val:
            ctx.violation("solve_lib_model", f"solve({case['lib']},{{{o}:{val}}}) returned a valuation that is not consistent at {bad[:5]}")
    elif not ok:
        ctx.violation("solve_raised", f"solve({case['lib']}) raised {res!r}")


def check_large(case, ctx):
    cg = ctx.cg
    c = G.build(cg, case["c"], "graph")
    net = Net.of(c)
    ctx.count("class:large")
    if case.get("widegate"):
        ctx.count("class:widegate")
        if case["widegate"][1] >= 30:
            ctx.count("widegate:30_or_more_operands")
    G.gate_arity_table(case["c"], ctx.table)
    free = net.free()
    if len(free) > 13 or net.has_x():
        ctx.count("skipped:large_too_many_free")
        return
    vals, k = sim.functions(net, free)
    mask = (1 << (1 << k)) - 1
    ok, r = ctx.call(cg.sat.cnf, c)
    if not ok:
        ctx.violation("cnf_raised", f"sat.cnf raised {r!r}")
        return
    formula, variables = r
    clauses = [list(cl) for cl in formula.clauses]
    o2i = dict(variables.obj2id)
    if any(n not in o2i for n in net.types) or len({o2i[n] for n in net.types}) != len(net.types):
        ctx.violation("cnf_shared_variable", "nodes without / sharing CNF variables")
        return
    ind = [o2i[n] for n in free]
    allsat = cnfeval.sat_over(clauses, ind)
    ctx.count("cmp:cnf_large")
    if allsat != mask:
        j = ((allsat ^ mask) & -(allsat ^ mask)).bit_length() - 1
        ctx.violation("cnf_rejects_consistent", f"CNF has no model for the startpoint valuation {sim.index_valuation(free, j)}")
        return
    for n in case["probe"]:
        pos = cnfeval.sat_over(clauses + [[o2i[n]]], ind)
        neg = cnfeval.sat_over(clauses + [[-o2i[n]]], ind)
        ctx.count("cnf_large_nodes_checked")
        if pos != vals[n] or neg != (vals[n] ^ mask):
            d = (pos ^ vals[n]) | (neg ^ vals[n] ^ mask)
            j = (d & -d).bit_length() - 1
            ctx.violation("cnf_large_node_function", f"under {sim.index_valuation(free, j)} the CNF allows {n!r}={'1' if sim.bit_at(pos, j) else ''}{'0' if sim.bit_at(neg, j) else ''} but the circuit gives {sim.bit_at(vals[n], j)}")
            return
    for A in case["assumps"]:
        ab = mask
        for n, v in A.items():
            ab &= vals[n] if v else vals[n] ^ mask
        ok, res = ctx.call(cg.sat.solve, c, dict(A))
        ctx.count("cmp:solve_large")
        if not ok:
            ctx.violation("solve_raised", f"solve({A}) raised {res!r}")
        elif res is False:
            ctx.count("answer:unsat")
            if ab:
                j = (ab & -ab).bit_length() - 1
                ctx.violation("solve_false_but_sat", f"solve({A}) returned False but the startpoint valuation {sim.index_valuation(free, j)} satisfies the assumptions")
        else:
            ctx.count("answer:sat")
            if not ab:
                ctx.violation("solve_sat_but_unsat", f"solve({A}) returned a valuation although no consistent valuation agrees with the assumptions")
                continue
            if set(res) != set(net.types):
                ctx.violation("solve_keys", f"solve({A}) keys differ from the circuit's nodes")
                continue
            j = sim.valuation_index(free, res)
            bad = [n for n in net.types if bool(res[n]) != bool(sim.bit_at(vals[n], j))]
            if bad:
                ctx.violation("solve_inconsistent_model", f"solve({A}) returned a valuation in which {bad[:5]} do not equal their gate function")
            elif any(bool(res[n]) != bool(v) for n, v in A.items()):
                ctx.violation("solve_ignores_assumption", f"solve({A}) ignores an assumption")


def check(case, ctx):
    if "lib" in case:
        return check_lib(case, ctx)
    if case.get("kind") == "large":
        return check_large(case, ctx)
    cg = ctx.cg
    cd = case["c"]
    via = case["via"] if (("cyclic" not in case["kind"] and case["kind"] != "selfloop") or case["via"] == "sparse") else "graph"
    c = G.build(cg, cd, via)
    nv = len(ctx.violations)
    decide(case, ctx, c, first=True)
    if len(ctx.violations) > nv:
        return
    # the same Circuit object after an in-place type change (an encoder must not answer for the old types)
    if case.get("retype"):
        g, t2 = case["retype"]
        if g in c.graph.nodes and c.graph.nodes[g].get("type") in G.GATESN:
            ok, _ = ctx.call(c.set_type, g, t2)
            if ok:
                ctx.count("requery_after_set_type")
                decide(case, ctx, c, first=False)
    for e in case.get("edits") or []:
        if len(ctx.violations) > nv:
            return
        if not apply_edit(cg, c, e):
            continue
        ctx.count("requery_after_edit")
        ctx.count(f"requery_after:{e[0]}")
        decide(case, ctx, c, first=False)


def apply_edit(cg, c, e):
    """In-place edits between two queries of one Circuit object; returns False when the edit does not apply."""
    op = e[0]
    try:
        if op in ("subcircuit", "subcircuit_const"):
            sub = cg.Circuit(name="blk")
            if op == "subcircuit":
                sub.add("x", "input")
            else:
                sub.add("x", "1")
            sub.add("y", "not", fanin=["x"], output=True)
            if any(str(n).startswith(e[1] + "_") for n in c.graph.nodes):
                return False
            c.add_subcircuit(sub, e[1], strip_io=e[2])
        elif op == "add":
            if e[1] in c.graph.nodes or any(x not in c.graph.nodes for x in e[3]):
                return False
            c.add(e[1], e[2], fanin=list(e[3]), output=True)
        elif op == "connect":
            if e[1] not in c.graph.nodes or e[2] not in c.graph.nodes or c.graph.has_edge(e[1], e[2]):
                return False
            c.connect(e[1], e[2])
        elif op == "disconnect":
            ps = sorted(c.graph.predecessors(e[1])) if e[1] in c.graph.nodes else []
            if len(ps) < 3:
                return False
            c.disconnect(ps[0], e[1])
            if not list(c.graph.successors(ps[0])):
                c.set_output(ps[0])
        else:
            return False
    except ValueError:
        return False
    return True


def decide(case, ctx, c, first):
    cg = ctx.cg
    cd = case["c"]
    net = Net.of(c)
    nodes = net.nodes()
    free = net.free()
    if first:
        ctx.count(f"class:{case['kind']}")
        if case.get("hostile"):
            ctx.count(case["hostile"])
        if case.get("shared_parity"):
            ctx.count("shared_parity_operands")
        G.gate_arity_table(cd, ctx.table)
    multi = [n for n in nodes if net.types[n] in G.GATESN and len(net.preds[n]) >= 2]
    if not multi or len(free) < 2:
        ctx.trivial()
    if net.has_x():
        ok, r = ctx.call(cg.sat.cnf, c)
        if not ok and isinstance(r, ValueError):
            ctx.reject("x_constant")
        else:
            ctx.count("x_accepted")
        return
    cons, order = sim.consistent_set(net)
    acyclic = net.topo() is not None
    npos = {n: i for i, n in enumerate(order)}

    # ---------------------------------------------------------------- (a) CNF level
    ok, r = ctx.call(cg.sat.cnf, c)
    if not ok:
        ctx.violation("cnf_raised", f"sat.cnf raised {r!r}\n{getattr(r, '_tb', '')}")
        return
    formula, variables = r
    clauses = [list(cl) for cl in formula.clauses]
    o2i = dict(variables.obj2id)
    missing = [n for n in nodes if n not in o2i]
    if missing:
        ctx.violation("cnf_no_variable", f"nodes without a CNF variable: {missing}")
        return
    ids = [o2i[n] for n in nodes]
    cnf_ok = True
    if len(set(ids)) != len(ids):
        dup = [n for n in nodes if ids.count(o2i[n]) > 1]
        ctx.violation("cnf_shared_variable", f"distinct nodes share a CNF variable: {dup}")
        cnf_ok = False
    used = {abs(l) for cl in clauses for l in cl} | set(ids)
    aux = sorted(v for v in used if v not in set(ids))
    aliased = [str(variables.obj(v)) for v in aux if False]
    if cnf_ok:
        if len(ids) + len(aux) <= 22:
            vorder = ids + aux
            bits = cnfeval.model_bits(clauses, vorder)
            proj = cnfeval.project(bits, len(vorder), len(ids))
            ctx.count("cmp:cnf_exhaustive")
            ctx.count("cnf_assignments_enumerated", 1 << len(vorder))
            if aux:
                ctx.count("cnf_with_aux")
            if proj != cons:
                cnf_ok = False
                extra = proj & ~cons
                lost = cons & ~proj
                if extra:
                    j = (extra & -extra).bit_length() - 1
                    w = sim.index_valuation(order, j)
                    ctx.violation("cnf_admits_inconsistent", f"CNF is satisfiable with the inconsistent node valuation {w}")
                if lost:
                    j = (lost & -lost).bit_length() - 1
                    w = sim.index_valuation(order, j)
                    ctx.violation("cnf_rejects_consistent", f"CNF excludes the consistent valuation {w} ({sim.popcount(lost)} of {sim.popcount(cons)} lost)")
            elif acyclic and sim.popcount(proj) != (1 << len(free)):
                ctx.violation("cnf_extension_count", f"{sim.popcount(proj)} models over nodes for {len(free)} free signals")
        else:
            ctx.count("skipped:cnf_too_many_vars")

    # ---------------------------------------------------------------- (b) solve level
    for A in case["assumps"]:
        abits = cons
        full = (1 << (1 << len(order))) - 1
        for n, v in A.items():
            vb = sim.var_bits(npos[n], len(order))
            abits &= vb if v else (vb ^ full)
        Aarg = {n: (int(v) if case.get("val_int") else bool(v)) for n, v in A.items()}
        a_passed = dict(Aarg)
        ok, res = ctx.call(cg.sat.solve, c, a_passed)
        if a_passed != Aarg:
            ctx.violation("solve_modified_assumptions", f"solve({A}) changed the caller's assumptions dict to {a_passed}")
            continue
        ctx.count("cmp:solve")
        if not ok:
            ctx.violation("solve_raised", f"solve({A}) raised {res!r}\n{getattr(res, '_tb', '')}")
            continue
        if res is False:
            ctx.count("answer:unsat")
            if abits:
                j = (abits & -abits).bit_length() - 1
                ctx.violation("solve_false_but_sat", f"solve({A}) returned False but {sim.index_valuation(order, j)} is consistent and agrees with the assumptions")
            continue
        ctx.count("answer:sat")
        if not isinstance(res, dict) or set(res) != set(nodes):
            ctx.violation("solve_keys", f"solve({A}) returned {type(res).__name__} with keys {sorted(res)[:8] if isinstance(res, dict) else res!r}")
            continue
        if not abits:
            ctx.violation("solve_sat_but_unsat", f"solve({A}) returned a valuation although no consistent valuation agrees with the assumptions")
            continue
        j = sim.valuation_index(order, res)
        if not (cons >> j) & 1:
            bad = []
            for n in nodes:
                t = net.types[n]
                if t in sim.GATES + ("bb_input",) and net.preds[n]:
                    if sim.gate_eval(t, [bool(res[p]) for p in net.preds[n]]) != bool(res[n]):
                        bad.append(n)
                elif t in ("0", "1") and bool(res[n]) != (t == "1"):
                    bad.append(n)
            ctx.violation("solve_inconsistent_model", f"solve({A}) returned a valuation in which {bad} do not equal their gate function")
        elif any(bool(res[n]) != bool(v) for n, v in A.items()):
            ctx.violation("solve_ignores_assumption", f"solve({A}) returned {res}")
        elif any(type(v) is not bool for v in res.values()):
            ctx.count("note:nonbool_values")

    # ---------------------------------------------------------------- (c) non-node assumption
    ghost = "no_such_node__"
    ok, res = ctx.call(cg.sat.solve, c, {ghost: True})
    ctx.count("cmp:ghost_assumption")
    if ok or not isinstance(res, ValueError):
        ctx.violation("ghost_assumption", f"assumption on a non-node gave {res!r} instead of ValueError")


def gates(counters, table, tier):
    out = []
    for t in G.GATESN:
        for a in ("1", "2", "3", "4+"):
            if table.get(f"{t}/{a}", 0) < 3:
                out.append(f"gate {t} at fan-in {a} seen {table.get(f'{t}/{a}', 0)} times")
    for k in ("shared_parity_operands", "class:selfloop", "requery_after_set_type", "requery_after_edit", "requery_after:subcircuit", "requery_after:subcircuit_const", "class:cyclic", "class:pins", "answer:unsat", "answer:sat", "cmp:cnf_exhaustive", "cnf_with_aux", "hostile:xor_a_b", "hostile:xor_inv", "class:lib", "class:large", "cnf_large_nodes_checked", "class:widegate", "widegate:30_or_more_operands"):
        if counters.get(k, 0) < 3:
            out.append(f"{k} seen {counters.get(k, 0)} times")
    return out
