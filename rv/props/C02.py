"""C02 - the Verilog parser yields the circuit the netlist denotes."""
import random
import re
import zlib

from rv.gen import netlists as N
from rv.oracle import sim
from rv.oracle.sim import Net
from rv.props._util import own_lint

RULE = (
    "random module ASTs rendered to text: input/output/wire declarations (merged or split, anywhere), primitive instances (1..3 per statement, operands incl. "
    "constants), continuous assigns over ~ ! & | ^ ~^ ^~ with a top-level ?:, parentheses omitted wherever the grammar's precedence makes them redundant (p=1/2) "
    "and added redundantly (p=1/4), 1'b0/1'b1/1'h0/1'h1, named-port blackbox instances with connected / .p() / omitted pins and constant pins, shuffled statements "
    "(use before definition), repeated sub-expressions, // and /* */ comments, random whitespace, escaped identifiers, nets named like the parser's temporaries "
    "(and_a_b, not_x, mux_o_.., tie_0), one operator chained over 17..30 operands, net names of 60..100 characters, bare line breaks as separators, blackbox definitions given as list / tuple / set / dict view; the AST's own evaluator gives every net for ALL valuations of inputs and blackbox outputs and is compared with the reference "
    "simulation of the returned circuit, plus io, blackbox registry, pin nets, well-formedness; negative cases (port list != declarations incl. same count with one name different, positional blackbox ports, "
    "named primitive ports, unknown module) must raise. non-trivial = >=2 statements; distinct = text"
)
BUDGET = {
    "quick": {"workers": 16, "cases": 160, "secs": 60, "min_cases": 1280},
    "thorough": {"workers": 16, "rounds": 4, "cases": 500, "secs": 420, "min_cases": 16000},
}
ANCHORS = ["io:verilog_to_circuit", "parsing.verilog:parse_verilog_netlist", "parsing.verilog:_VerilogCircuitGraphTransformer.module", "parsing.verilog:_VerilogCircuitGraphTransformer.assignment", "parsing.verilog:_VerilogCircuitGraphTransformer.ternary", "parsing.verilog:_VerilogCircuitGraphTransformer.module_instantiation"]
MUST_CALL = ["io:verilog_to_circuit", "parsing.verilog:parse_verilog_netlist"]

NEG = ["extra_port", "missing_port_input", "missing_port_output", "positional_bb", "named_prim", "unknown_module", "wire_only_port", "port_renamed_input", "port_renamed_output", "empty_port_list"]


def gen(rng, ctx):
    big = ctx.tier == "thorough"
    stats = {}
    neg = rng.choice(NEG) if rng.random() < 0.12 else None
    nl = N.gen_netlist(rng, "full", max_stmts=10 if not big else 14, max_inputs=5 if not big else 6, depth=4 if not big else 5, lookalike=0.3, escaped=0.15, stats=stats)
    if rng.random() < 0.05 and "renamed" not in nl:
        # identifiers that contain a keyword the module extraction looks for
        cands = [w for w in nl["wires"] + nl["outputs"] + nl["inputs"] if not w.startswith("\\")]
        m = {}
        for w in rng.sample(cands, min(len(cands), rng.randint(1, 2))):
            nn = rng.choice(["n_endmodule", "endmodule_1", "xendmodulex", "endmodule$", "ENDMODULE", "module_a", "a_module", "endmodul"])
            if nn not in m.values() and nn not in cands:
                m[w] = nn
        if m:
            nl = N.rename_nets(nl, m)
            nl["renamed"] = sorted(m.values())
            nl["keywordlike"] = True
    dup = False
    if neg is None and rng.random() < 0.03:
        # parity operator / gate listing the same net twice (known finding C02-duplicate-parity-operand)
        x = rng.choice(nl["inputs"])
        w = "zz_dup"
        if rng.random() < 0.5:
            nl["stmts"].append({"k": "assign", "assigns": [[w, [rng.choice(["xor", "xnor"]), "^", ["id", x], ["id", x]]]]})
            nl["stmts"][-1]["assigns"][0][1][1] = "^" if nl["stmts"][-1]["assigns"][0][1][0] == "xor" else "~^"
        else:
            nl["stmts"].append({"k": "prim", "gate": rng.choice(["xor", "xnor"]), "insts": [["zz_gd", w, [["id", x], ["id", x]]]]})
        nl["outputs"].append(w)
        dup = True
    if neg:
        nl["neg"] = neg
        if neg == "positional_bb":
            nl["bbdefs"]["ff"] = N.DEFAULT_BBS["ff"]
    text = N.render(rng, nl, layout=rng.choice(["free", "free", "writer"]), comments=rng.choice([0.0, 0.05, 0.15]))
    decoy = None
    if neg is None and rng.random() < 0.12:
        # other modules in the same text: the named one must be parsed (with infer and an unknown name: the first one)
        d = N.gen_netlist(rng, "full", max_stmts=4, max_inputs=3, nbb=0)
        # ... among them modules whose names differ from the wanted one only in case, or extend it
        d["name"] = rng.choice(["decoy_a", "zz_other", "Top_2x"] + [x for x in (nl["name"].upper(), nl["name"].lower(), nl["name"].swapcase(), nl["name"] + "$b", "x" + nl["name"]) if x != nl["name"]])
        dt = N.render(rng, d, layout="writer")
        decoy = rng.choice(["after", "before"])
        text = text + "\n" + dt if decoy == "after" else dt + "\n" + text
    nl.pop("_stats", None)
    return {"nl": nl, "text": text, "neg": neg, "stats": stats, "dup_parity": dup, "name_mode": "exact" if decoy == "before" else rng.choice(["exact"] * 8 + ["infer", "wrong"]), "decoy": decoy}


def check(case, ctx):
    cg = ctx.cg
    nl = case["nl"]
    text = case["text"]
    bbs = [cg.BlackBox(t, list(d["inputs"]), list(d["outputs"])) for t, d in sorted(nl["bbdefs"].items())]
    if bbs:
        # "seq of BlackBox": the same definitions in another container
        rep = ["list", "list", "tuple", "set", "dictvalues"][zlib.crc32(text.encode()) % 5]
        bbs = {"list": list, "tuple": tuple, "set": set, "dictvalues": lambda x: {b.name: b for b in x}.values()}[rep](bbs)
        ctx.count(f"blackboxes_as:{rep}")
    for k, v in case["stats"].items():
        ctx.count(f"expr:{k}", v)
    mode = case.get("name_mode", "exact")
    if mode == "infer":
        # a wrong name with infer_module_name=True must fall back to the (only) module of the text
        ok, c = ctx.call(cg.io.verilog_to_circuit, text, "no_such_module_name", True, bbs)
        ctx.count("infer_module_name")
    elif mode == "wrong":
        ok, c = ctx.call(cg.io.verilog_to_circuit, text, "no_such_module_name", blackboxes=bbs)
        ctx.count("wrong_module_name")
        ctx.count("note:wrong_name_" + ("accepted" if ok else type(c).__name__))
        return
    else:
        ok, c = ctx.call(cg.io.verilog_to_circuit, text, nl["name"], blackboxes=bbs)
    if case["neg"]:
        ctx.count(f"neg:{case['neg']}")
        if ok:
            ctx.violation("malformed_accepted", f"netlist with {case['neg']} was accepted silently\n--- text ---\n{text[:1500]}")
        else:
            ctx.count(f"neg_exc:{type(c).__name__}")
        return
    if re.search(r"[~!]\s*[~!]", text):
        ctx.count("expr:stacked_unary")
    if re.search(r"\?[^;?]*\?", text):
        ctx.count("expr:two_conditionals_in_one_expression")
    if re.search(r"//[^\n]*endmodule|/\*(?:(?!\*/).)*endmodule", text, re.S):
        ctx.count("comment_mentions_endmodule")
    if nl.get("keywordlike"):
        ctx.count("identifiers_containing_endmodule_or_module")
    if "$" in nl["name"]:
        ctx.count("module_name_with_dollar")
    if case.get("decoy"):
        ctx.count("decoy_module_" + case["decoy"])
        if re.search(r"module\s+" + re.escape(nl["name"]) + r"\b", text, re.I) and len(re.findall(r"module\s+" + re.escape(nl["name"]) + r"\b", text, re.I)) > len(re.findall(r"module\s+" + re.escape(nl["name"]) + r"\b", text)):
            ctx.count("decoy_name_differs_in_case_only")
    if re.search(r"\)\s*,\s*[A-Za-z_\\][^\s(]*\s*\(\s*\.", text):
        ctx.count("multi_instance_blackbox_statement")
    if "\r\n" in text:
        ctx.count("crlf_line_endings")
    if not text.endswith("\n"):
        ctx.count("no_final_newline")
    if "//" in text:
        ctx.count("line_comments")
    if "/*" in text:
        ctx.count("block_comments")
    if nl.get("renamed"):
        ctx.count("renamed_nets")
        if any(r.startswith("\\") for r in nl["renamed"]):
            ctx.count("escaped_names")
        if any(not r.startswith("\\") for r in nl["renamed"]):
            ctx.count("lookalike_names")
    if len(nl["stmts"]) < 2:
        ctx.trivial()
    if not ok:
        ctx.violation("parse_raised", f"verilog_to_circuit raised {c!r} on an in-subset netlist\n{getattr(c, '_tb', '')[-600:]}\n--- text ---\n{text[:1800]}")
        return
    net = Net.of(c)
    ctx.count("cmp:parse")
    for s in nl["stmts"]:
        ctx.count(f"stmt:{s['k']}")
        if s["k"] == "prim" and len(s["insts"]) > 1:
            ctx.count("multi_instance_statement")
        if s["k"] == "assign" and len(s["assigns"]) > 1:
            ctx.count("multi_assign_statement")
        if s["k"] == "bb":
            for p, n in s["pins"]:
                ctx.count("pin:" + ("unconnected" if n is None else "omitted" if n == "__omit__" else "const" if isinstance(n, list) else "net"))
    tail = f"\n--- text ---\n{text[:1800]}"
    if net.name != nl["name"]:
        ctx.violation("parse_name", f"circuit name {net.name!r} != module name {nl['name']!r}")
    if net.inputs() != set(nl["inputs"]):
        ctx.violation("parse_inputs", f"inputs {sorted(net.inputs())} != declared {sorted(nl['inputs'])}{tail}")
        return
    if net.outputs != set(nl["outputs"]):
        ctx.violation("parse_outputs", f"outputs {sorted(net.outputs)} != declared {sorted(nl['outputs'])}{tail}")
        return
    probs = own_lint(net)
    if probs:
        ctx.violation("parse_illformed", f"returned circuit is not well formed: {probs[:4]}{tail}")
        return
    # blackboxes
    want = {s["inst"]: s for s in nl["stmts"] if s["k"] == "bb"}
    if set(net.bbs) != set(want):
        ctx.violation("parse_registry", f"blackbox instances {sorted(net.bbs)} != {sorted(want)}{tail}")
        return
    unconnected_in = False
    for inst, s in want.items():
        d = nl["bbdefs"][s["type"]]
        bn, bi, bo = net.bbs[inst]
        if bn != s["type"] or bi != frozenset(d["inputs"]) or bo != frozenset(d["outputs"]):
            ctx.violation("parse_bb_type", f"instance {inst} registered as {bn} {sorted(bi)}/{sorted(bo)}{tail}")
            return
        for p, n in s["pins"]:
            pin = f"{inst}.{p}"
            is_in = p in d["inputs"]
            if net.types.get(pin) != ("bb_input" if is_in else "bb_output"):
                ctx.violation("parse_pin_type", f"pin {pin} has type {net.types.get(pin)!r}{tail}")
                return
            att = net.preds[pin] if is_in else net.succs[pin]
            if n is None or n == "__omit__":
                if att:
                    ctx.violation("parse_pin_unconnected", f"unconnected pin {pin} is attached to {att}{tail}")
                    return
                if is_in:
                    unconnected_in = True
            elif isinstance(n, list):
                if len(att) != 1 or net.types.get(att[0]) != ("1" if n[1] else "0"):
                    ctx.violation("parse_pin_const", f"pin {pin} should be tied to constant {n[1]}, is attached to {att} ({[net.types.get(a) for a in att]}){tail}")
                    return
            elif att != [n]:
                ctx.violation("parse_pin_net", f"pin {pin} is attached to {att}, the instantiation names {n!r}{tail}")
                return
    okl, rl = ctx.call(cg.lint, c, undriven=not unconnected_in)
    if not okl:
        ctx.violation("parse_lint", f"returned circuit fails lint: {rl!r}{tail}")
        return
    # functions of all declared nets
    val, order, k = N.evaluate(nl)
    if k > 13:
        ctx.count("skipped:too_many_free")
        return
    fixed = {}
    pinof = {w: p for p, w in nl["free_bb"]}
    for i, n in enumerate(order):
        fixed[pinof.get(n, n)] = sim.var_bits(i, k)
    for n in net.free():
        fixed.setdefault(n, 0)  # unconnected pins
    try:
        cv, _ = sim.functions(net, [], fixed=fixed, k=k)
    except ValueError as e:
        ctx.violation("parse_not_simulable", f"returned circuit cannot be simulated: {e}{tail}")
        return
    ctx.count("nets_compared", len(val))
    for n, v in val.items():
        if n not in cv:
            ctx.violation("parse_net_missing", f"declared net {n!r} is not a node{tail}")
            return
        if cv[n] != v:
            d = cv[n] ^ v
            j = (d & -d).bit_length() - 1
            ctx.violation("parse_net_function", f"net {n!r} = {sim.bit_at(cv[n], j)} but Verilog semantics gives {sim.bit_at(v, j)} under {sim.index_valuation(order, j)}{tail}")
            return


def gates(counters, table, tier):
    out = []
    for op in ("and", "or", "xor", "xnor", "not"):
        if counters.get(f"expr:{op}", 0) < 50:
            out.append(f"operator {op} generated {counters.get(f'expr:{op}', 0)} times")
    need = ["decoy_module_after", "decoy_module_before", "infer_module_name", "wrong_module_name", "expr:tern", "expr:nested_tern", "expr:stacked_unary", "expr:two_conditionals_in_one_expression", "expr:repeated_subexpr", "multi_instance_statement", "pin:unconnected", "pin:omitted", "pin:net", "line_comments", "block_comments", "escaped_names", "lookalike_names", "expr:wide_chain", "expr:long_names", "crlf_line_endings", "no_final_newline", "multi_instance_blackbox_statement", "blackboxes_as:tuple", "blackboxes_as:set", "identifiers_containing_endmodule_or_module", "comment_mentions_endmodule", "module_name_with_dollar"] + [f"neg:{n}" for n in NEG]
    out += [f"{k} seen {counters.get(k, 0)} times" for k in need if counters.get(k, 0) < 3]
    return out
