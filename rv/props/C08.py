"""C08 - model counting and signal probability are exact."""
import os
import shutil
import tempfile
from fractions import Fraction

from rv.gen import circuits as G
from rv.oracle import cnfeval, sim
from rv.oracle.sim import Net

RULE = (
    "random lint-clean circuits (constants, blackbox pins, some cyclic) with 0..8 startpoints (thorough ..12); "
    "model_count under random assumption sets (inputs / internal / outputs / contradictory; values as bool or as int 0/1) is compared with a "
    "brute-force count of startpoint valuations that extend to a consistent valuation; signal_probability(approx=False) "
    "with an exact Fraction; the DIMACS file handed to the `approxmc` executable is captured at the process boundary, its "
    "header is checked against its body and its exact projected count on the `c ind` set is compared with the same brute force. "
    "non-trivial = >=2 startpoints and >=1 multi-input gate; distinct = canonical circuit + assumptions"
)
BUDGET = {
    "quick": {"workers": 16, "cases": 140, "secs": 60, "case_secs": 90, "min_cases": 1120},
    "thorough": {"workers": 16, "rounds": 4, "cases": 260, "secs": 420, "case_secs": 90, "min_cases": 12800},
}
SIBLINGS = True  # consecutive cases with identical structure and different gate types
ANCHORS = ["sat:model_count", "props:signal_probability", "sat:approx_model_count"]


def setup(ctx):
    ctx.logdir = tempfile.mkdtemp(prefix="verif-approxmc-")
    os.environ["VERIF_APPROXMC_LOG"] = ctx.logdir


def teardown(ctx):
    shutil.rmtree(ctx.logdir, ignore_errors=True)


def gen(rng, ctx):
    big = ctx.tier == "thorough"
    r = rng.random()
    if rng.random() < 0.07:
        # many startpoints: only the approxmc hand-off is exercised (no enumeration by the library)
        ni = rng.randint(10, 14)
        cd = G.rand_circuit(rng, ni, rng.randint(3, 9), max_fanin=5, p_wide=0.4, p_const=0.1)
        nodes = [n for n, _, _ in cd["nodes"]]
        A = {n: rng.random() < 0.5 for n in rng.sample(nodes, rng.randint(0, min(2, len(nodes))))}
        return {"c": cd, "kind": "wide_approx", "assumps": [A], "probes": []}
    if r < 0.08:
        ni = 0
    elif big and r < 0.2:
        ni = rng.randint(9, 12)
    else:
        ni = rng.randint(1, 8 if big else 7)
    kind = "acyclic"
    maxg = 8 if ni > 8 else 9
    cd = G.rand_circuit(rng, ni, rng.randint(1, maxg), max_fanin=5, p_const=0.5 if ni == 0 else 0.2, p_wide=0.3)
    if ni == 0:
        # no inputs: drop the mandatory i0 by turning it into a constant
        cd["nodes"] = [[n, (rng.choice(["0", "1"]) if t == "input" else t), o] for n, t, o in cd["nodes"]]
        kind = "no_startpoints"
        if rng.random() < 0.5:
            cd = G.add_cycles(rng, cd, rng.randint(1, 2))  # a loop may leave a non-startpoint variable undetermined
    elif rng.random() < 0.25:
        cd = G.add_blackboxes(rng, cd, 1, p_unconnected=rng.choice([0.0, 0.0, 0.4]))
        kind = "pins"
    elif rng.random() < 0.15 and ni <= 6:
        cd = G.add_cycles(rng, cd, rng.randint(1, 2))
        kind = "cyclic"
    if kind == "acyclic" and rng.random() < 0.15 and ni >= 2:
        cd = G.add_shared_parity(rng, cd, rng.randint(2, 3))
        kind = "shared_parity"
    nodes = [n for n, _, _ in cd["nodes"]]
    tps = G.cd_types(cd)
    assumps = []
    for _ in range(3):
        mode = rng.choice(["inputs", "internal", "outputs", "mixed", "empty"])
        if mode == "inputs":
            pool = [n for n in nodes if tps[n] in ("input", "bb_output")]
        elif mode == "internal":
            pool = [n for n in nodes if tps[n] not in ("input", "bb_output")]
        elif mode == "outputs":
            pool = G.cd_outputs(cd)
        elif mode == "empty":
            pool = []
        else:
            pool = nodes
        sel = rng.sample(pool, rng.randint(0, min(len(pool), 3))) if pool else []
        assumps.append({n: rng.random() < 0.5 for n in sel})
    probes = rng.sample(nodes, min(3, len(nodes)))
    if ni >= 9:
        # thousands of solver calls per count: one assumption set and one probe keep the case bounded
        assumps = [a for a in assumps if a][:1] or assumps[:1]
        probes = probes[:1]
    return {"c": cd, "kind": kind, "assumps": assumps, "probes": probes}


def brute_count(net, A):
    """#valuations of startpoints extendable to a consistent valuation agreeing with A."""
    sp = [n for n, t in net.types.items() if t in ("input", "bb_output")]
    if net.topo() is not None:
        others = [n for n in net.free() if n not in sp]
        order = sp + others
        vals, k = sim.functions(net, order)
        mask = (1 << (1 << k)) - 1
        ok = mask
        for n, v in A.items():
            ok &= vals[n] if v else vals[n] ^ mask
        return sim.popcount(cnfeval.project(ok, k, len(sp))), sp
    rest = [n for n in net.types if n not in sp]
    order = sp + rest
    cons, _ = sim.consistent_set(net, order)
    k = len(order)
    mask = (1 << (1 << k)) - 1
    for n, v in A.items():
        vb = sim.var_bits(order.index(n), k)
        cons &= vb if v else vb ^ mask
    return sim.popcount(cnfeval.project(cons, k, len(sp))), sp


def parse_dimacs(text):
    ind, clauses, header = None, [], None  # ind stays None when no sampling set is declared at all
    for line in text.split("\n"):
        s = line.strip()
        if not s:
            continue
        if s.startswith("c ind"):
            toks = s.split()[2:]
            if toks[-1] != "0":
                raise ValueError("c ind not terminated")
            ind = (ind or []) + [int(t) for t in toks[:-1]]
        elif s.startswith("c"):
            continue
        elif s.startswith("p cnf"):
            header = tuple(int(x) for x in s.split()[2:4])
        else:
            toks = s.split()
            if toks[-1] != "0":
                raise ValueError("clause not terminated")
            clauses.append([int(t) for t in toks[:-1]])
    return ind, clauses, header


def check(case, ctx):
    cg = ctx.cg
    cd = case["c"]
    c = G.build(cg, cd, "sparse" if len(cd["nodes"]) % 3 == 0 else "graph")
    nv = len(ctx.violations)
    decide(case, ctx, c, True)
    if len(ctx.violations) > nv or case["kind"] == "wide_approx":
        return
    multi = sorted(n for n in c.graph.nodes if c.graph.nodes[n].get("type") in G.GATESN)
    if multi and len(cd["nodes"]) % 4 == 0:
        # the same Circuit object after an in-place type change: counts must follow the new types
        g = multi[len(cd["edges"]) % len(multi)]
        t0 = c.graph.nodes[g]["type"]
        t1 = G.GATESN[(G.GATESN.index(t0) + 1 + len(cd["edges"])) % len(G.GATESN)]
        if t1 != t0:
            c.set_type(g, t1)
            ctx.count("requery_after_set_type")
            decide(case, ctx, c, False)


def decide(case, ctx, c, first):
    cg = ctx.cg
    cd = case["c"]
    net = Net.of(c)
    if first:
        ctx.count(f"class:{case['kind']}")
    sp_n = len([n for n, t in net.types.items() if t in ("input", "bb_output")])
    ctx.count(f"startpoints:{sp_n if sp_n < 9 else '9+'}")
    if sp_n < 2 or not any(t in G.GATESN and len(net.preds[n]) > 1 for n, t in net.types.items()):
        ctx.trivial()
    if len(net.types) > (26 if case["kind"] == "wide_approx" else 20):
        ctx.count("skipped:too_large")
        return
    for ai, A in enumerate(case["assumps"]):
        want, sp = brute_count(net, A)
        Aarg = dict(A)
        if A and (ai + len(A)) % 3 == 1:
            Aarg = {n: int(v) for n, v in A.items()}  # "dict of str:int" per the docstring
            ctx.count("assumptions_as_int")
        if case["kind"] == "wide_approx":
            ok, got = True, want  # the library's enumeration is skipped for this class
        else:
            a_passed = dict(Aarg)
            ok, got = ctx.call(cg.sat.model_count, c, a_passed)
            if a_passed != Aarg:
                ctx.violation("model_count_modified_assumptions", f"model_count({A}) changed the caller's assumptions dict to {a_passed}")
                continue
        if ai == 0 and sp_n <= 6 and case["kind"] != "wide_approx":
            from rv.props._util import repeat_call

            # second call with the same (possibly modified) argument objects; that outcome is judged below
            ok, got = repeat_call(ctx, "model_count", f"model_count({A})", cg.sat.model_count, (c, Aarg), {}, (ok, got))
        ctx.count("cmp:model_count")
        ctx.count("count_zero" if want == 0 else "count_pos")
        if A and any(net.types[n] not in ("input", "bb_output") for n in A):
            ctx.count("assume:internal")
        if not ok:
            ctx.violation("model_count_raised", f"model_count({A}) raised {got!r}\n{getattr(got, '_tb', '')}")
        elif got != want:
            ctx.violation("model_count", f"model_count({A}) = {got}, brute force over {len(sp)} startpoints gives {want}")

        # approxmc hand-off (default, plain-clause mode); one process per call
        if ai > 0 and (hash((ai, len(A), want)) % 3):
            continue
        if case["kind"] == "wide_approx":
            ctx.count("approx_with_10plus_startpoints")
        before = set(os.listdir(ctx.logdir))
        # the sampling set left to the default or given explicitly ("iter of str"), in different iterable forms
        spform = (ai + want + len(sp)) % 6
        spl = sorted(sp, reverse=True)
        kw = {} if spform == 0 else {"startpoints": [None, list, lambda x: (y for y in x), iter, tuple, set][spform](spl)}
        ctx.count("sampling_set:" + ["default", "list", "generator", "iterator", "tuple", "set"][spform])
        ok, got = ctx.call(cg.sat.approx_model_count, c, dict(Aarg), **kw)
        new = sorted(f for f in set(os.listdir(ctx.logdir)) - before if f.endswith(".cnf"))
        ctx.count("cmp:approx_handoff")
        if not ok:
            ctx.violation("approx_raised", f"approx_model_count({A}) raised {got!r}\n{getattr(got, '_tb', '')}")
        elif len(new) != 1:
            ctx.violation("approx_no_file", f"approx_model_count handed {len(new)} files to approxmc")
        else:
            text = open(os.path.join(ctx.logdir, new[0])).read()
            try:
                ind, clauses, header = parse_dimacs(text)
            except ValueError as e:
                ctx.violation("dimacs_syntax", f"unparsable DIMACS handed to approxmc: {e}: {text[:200]!r}")
                clauses = None
            if clauses is not None and ind is None and header is not None:
                # no `c ind` line: projected counters then count over ALL variables
                ctx.count("dimacs_without_sampling_set")
                ind = list(range(1, header[0] + 1))
            if clauses is not None and ind is not None:
                maxv = max([abs(l) for cl in clauses for l in cl] + [0])
                if header is None or header[1] != len(clauses) or header[0] < maxv:
                    ctx.violation("dimacs_header", f"header {header} but body has {len(clauses)} clauses, max variable {maxv}")
                else:
                    if len(ind) != len(set(ind)) or any(v < 1 or v > header[0] for v in ind):
                        ctx.violation("dimacs_ind", f"sampling set {ind} malformed for {header[0]} variables")
                    exact = cnfeval.count_projected(clauses, header[0], ind)
                    ctx.count("dimacs_counted")
                    if exact != want:
                        ctx.violation("dimacs_count", f"DIMACS for assumptions {A} has {exact} models projected on c ind {ind}; brute force gives {want}")
                    if got != exact:
                        ctx.violation("approx_result", f"approx_model_count returned {got} but the counter printed {exact}")
            for f in new:
                os.unlink(os.path.join(ctx.logdir, f))
                try:
                    os.unlink(os.path.join(ctx.logdir, f[:-4] + ".argv"))
                except OSError:
                    pass

    # signal probability (acyclic only: the definition needs a function)
    if net.topo() is None:
        return
    free = net.free()
    vals, k = sim.functions(net, free)
    for n in case["probes"]:
        ok, got = ctx.call(cg.props.signal_probability, c, n, approx=False)
        ctx.count("cmp:signal_probability")
        if not ok:
            from rv.oracle.graphdefs import reach

            if isinstance(got, NotImplementedError) and any(net.types[x] in ("bb_input", "bb_output") for x in reach(net.preds, [n]) | {n}):
                # documented refusal of tx.subcircuit: the cone of n contains a blackbox pin
                ctx.reject("subcircuit_with_blackbox")
                continue
            ctx.violation("signal_probability_raised", f"signal_probability({n!r}) raised {got!r}\n{getattr(got, '_tb', '')}")
            continue
        want = Fraction(sim.popcount(vals[n]), 1 << k)
        try:
            gotf = Fraction(got)
        except (TypeError, ValueError):
            ctx.violation("signal_probability", f"signal_probability({n!r}) returned {got!r}")
            continue
        ctx.count("prob_extreme" if want in (0, 1) else "prob_mid")
        if gotf != want:
            ctx.violation("signal_probability", f"signal_probability({n!r}) = {got}, exact fraction is {want}")


def gates(counters, table, tier):
    need = ["class:shared_parity", "approx_with_10plus_startpoints", "requery_after_set_type", "class:acyclic", "class:pins", "class:cyclic", "class:no_startpoints", "count_zero", "count_pos", "assume:internal", "dimacs_counted", "prob_mid", "cmp:signal_probability", "assumptions_as_int", "sampling_set:generator", "sampling_set:iterator", "sampling_set:default"]
    return [f"{k} seen {counters.get(k, 0)} times" for k in need if counters.get(k, 0) < 3]
