"""C05 - fan-in/fan-out limiting, register insertion and acyclic_unroll(acyclic) preserve function."""
from rv.gen import circuits as G
from rv.oracle import sim
from rv.oracle.sim import Net
from rv.props._util import compare_functions, own_lint, repeat_call

RULE = (
    "random lint-clean circuits (some with blackbox pins) with gates of every multi-input type at fan-in 1..7 and nodes "
    "with fan-out 1..7; k in 2..5; every original node's function over ALL valuations of the free signals is compared "
    "before/after limit_fanin and limit_fanout together with the fan-in / fan-out bound and the io sets; insert_registers: "
    "harness makes every inserted flop transparent (d driver wired to the q buffer) and compares all original nodes; "
    "acyclic_unroll on acyclic input: same inputs/outputs/output functions. non-trivial = some gate or node exceeds k (resp. "
    "a register was inserted); distinct = canonical circuit + parameters"
)
BUDGET = {
    "quick": {"workers": 16, "cases": 1000, "secs": 60, "min_cases": 8000},
    "thorough": {"workers": 16, "rounds": 4, "cases": 2500, "secs": 420, "min_cases": 80000},
}
SIBLINGS = True  # consecutive cases with identical structure and different gate types
ANCHORS = ["tx:limit_fanin", "tx:limit_fanout", "tx:insert_registers", "tx:acyclic_unroll"]


def gen(rng, ctx):
    big = ctx.tier == "thorough"
    if rng.random() < (0.01 if big else 0.002) or (ctx.gen_index == 0 and ctx.index < 4):
        from rv.gen import libnets

        return {"lib": libnets.pick(rng, ctx.tier) if ctx.gen_index else ["c17", "s27", "c432", "mux_4"][ctx.index % 4], "op": rng.choice(["limit_fanin", "limit_fanout", "insert_registers", "acyclic_unroll"]), "k": rng.randint(2, 4), "stages": rng.randint(1, 3), "seed": rng.getrandbits(32)}
    if ctx.gen_index == 2 and ctx.index < 2:
        n_ = rng.randint(1100, 1400)
        cd = G.new_cdict("hub")
        cd["nodes"] += [["h", "input", False], ["s", "input", False]]
        for j in range(n_):
            cd["nodes"].append([f"l{j}", rng.choice(["and", "or", "xor", "not", "buf"]) if j % 7 else "nand", True])
            cd["edges"].append(["h", f"l{j}"])
            if cd["nodes"][-1][1] not in ("not", "buf"):
                cd["edges"].append(["s", f"l{j}"])
        return {"op": "limit_fanout", "c": cd, "kind": "huge_fanout", "k": 2 + ctx.index, "stages": 1, "repeat": False, "custom_ff": False}
    op = rng.choice(["limit_fanin", "limit_fanin", "limit_fanout", "insert_registers", "acyclic_unroll"])
    ni = rng.randint(2, 6 if not big else 8)
    ng = rng.randint(2, 9 if not big else 14)
    if op == "limit_fanin":
        t = rng.choice(G.GATESN)
        cd = G.rand_circuit(rng, ni, ng, max_fanin=7, p_wide=0.45, force=(t, rng.randint(3, 7)), allow_x=rng.random() < 0.3)
    elif op == "limit_fanout":
        cd = G.rand_circuit(rng, ni, ng + 3, max_fanin=4, shape=rng.choice(["wide", "wide", "random"]), allow_x=rng.random() < 0.3)
        if rng.random() < 0.12:
            # an unknown-value tie-off with many loads (an `x` node is an opaque source: every load must keep seeing it)
            multi = [n for n, t, _ in cd["nodes"] if t in G.GATESN]
            if len(multi) >= 3:
                cd["nodes"].append(["kx", "x", False])
                for m in rng.sample(multi, rng.randint(3, min(6, len(multi)))):
                    cd["edges"].append(["kx", m])
    else:
        cd = G.rand_circuit(rng, ni, ng, max_fanin=4, shape=rng.choice(["chain", "random", "tree", "diamond"]), p_input_output=0.0 if op == "acyclic_unroll" and rng.random() < 0.7 else 0.1)
    kind = "plain"
    if (op in ("limit_fanin", "limit_fanout") and rng.random() < 0.2) or (op == "insert_registers" and rng.random() < 0.15):
        cd = G.add_blackboxes(rng, cd, 1)
        kind = "pins"
    if rng.random() < 0.08:
        names = [n for n, _, _ in cd["nodes"] if "." not in n]
        v, o = rng.sample(names, 2) if len(names) > 1 else (names[0], names[0])
        new = rng.choice([f"{o}_limit_fanin_0", f"{o}_limit_fanout_0", f"{o}_cg_insert_reg_q_{rng.randint(1, 4)}", f"{o}_r_{rng.randint(1, 3)}", "clk", f"c0_{o}", f"ff_{o}"])
        try:
            cd = G.cd_rename(cd, {v: new})
            kind += "+hostile"
        except ValueError:
            pass
    if op == "limit_fanin" and kind == "plain" and rng.random() < 0.1:
        cd, tag = G.ambiguous_names(rng, cd)
        if tag:
            kind = "plain+ambiguous_names"
    if rng.random() < 0.3:
        cd = G.shuffle_nodes(rng, cd)
    return {"op": op, "c": cd, "kind": kind, "k": rng.randint(2, 5), "stages": rng.randint(1, 4), "repeat": rng.random() < 0.25, "custom_ff": op == "insert_registers" and rng.random() < 0.35, "bare_ff": op == "insert_registers" and rng.random() < 0.15}


def check_lib(case, ctx):
    from rv.gen import libnets

    cg = ctx.cg
    op, k = case["op"], case["k"]
    cd = libnets.load(cg, case["lib"])
    c = G.build(cg, cd, "graph")
    before = Net.of(c)
    ctx.count(f"lib:{case['lib']}")
    ctx.count(f"lib_op:{op}")
    if op == "insert_registers" and before.bbs:
        op = "limit_fanout"
    if op == "acyclic_unroll" and before.bbs:
        op = "limit_fanin"
    fn = {"limit_fanin": lambda: cg.tx.limit_fanin(c, k), "limit_fanout": lambda: cg.tx.limit_fanout(c, k), "insert_registers": lambda: cg.tx.insert_registers(c, case["stages"]), "acyclic_unroll": lambda: cg.tx.acyclic_unroll(c)}[op]
    ok, r = ctx.call(fn)
    what = f"{op} on {case['lib']}"
    if not ok:
        ctx.violation(op + "_raised", f"{what} raised {r!r}\n{getattr(r, '_tb', '')}")
        return
    after = Net.of(r)
    if op == "limit_fanin" and [n for n, t in after.types.items() if t in sim.GATES and len(after.preds[n]) > k]:
        ctx.violation("limit_fanin_bound", f"{what}: gates with more than {k} inputs remain")
    if op == "limit_fanout" and [n for n in after.types if len(after.succs[n]) > k]:
        ctx.violation("limit_fanout_bound", f"{what}: nodes with more than {k} loads remain")
    if op in ("limit_fanin", "limit_fanout", "acyclic_unroll"):
        if after.inputs() != before.inputs() or after.outputs != before.outputs:
            ctx.violation(op + "_io", f"{what}: io changed")
            return
        nodes = sorted(before.outputs) if op == "acyclic_unroll" else before.nodes()
        libnets.compare_sampled(ctx, op, before, after, nodes, case["seed"], what)
        return
    # insert_registers: flops made transparent
    types = dict(after.types)
    preds = {n: list(p) for n, p in after.preds.items()}
    for inst in [i for i in after.bbs if i not in before.bbs]:
        d, q = f"{inst}.d", f"{inst}.q"
        if len(preds.get(d, [])) != 1 or len(after.succs.get(q, [])) != 1:
            ctx.violation("insert_registers_wiring", f"{what}: flop {inst} not spliced into a wire")
            return
        preds[after.succs[q][0]] = [preds[d][0]]
        for p_ in after.bbs[inst][1] | after.bbs[inst][2]:
            types.pop(f"{inst}.{p_}", None)
            preds.pop(f"{inst}.{p_}", None)
    ctx.count("lib_registers", len(after.bbs) - len(before.bbs))
    libnets.compare_sampled(ctx, "insert_registers", before, Net(types, preds, after.outputs), before.nodes(), case["seed"], what, extra_fixed={"clk": 0})


def check(case, ctx):
    if "lib" in case:
        return check_lib(case, ctx)
    cg = ctx.cg
    op = case["op"]
    cd = case["c"]
    c = G.build(cg, cd, "sparse" if len(cd["nodes"]) % 3 == 0 else "graph")
    before = Net.of(c)
    k = case["k"]
    ctx.count(f"op:{op}")
    ctx.count(f"class:{case['kind']}")
    G.gate_arity_table(cd, ctx.table)
    nodes = before.nodes()
    free = before.free() + [n for n, t in before.types.items() if t == "x"]  # `x` constants are opaque sources
    if before.has_x():
        ctx.count("with_x_constant")
    if len(free) > 14:
        ctx.count("skipped:too_many_free")
        return

    if op in ("limit_fanin", "limit_fanout"):
        fn = getattr(cg.tx, op)
        ok, r = ctx.call(fn, c, k)
        what = f"{op}(k={k})"
        if case.get("repeat"):
            ok, r = repeat_call(ctx, op, what, fn, (c, k), {}, (ok, r))
        if not ok:
            ctx.violation(op + "_raised", f"{what} raised {r!r}\n{getattr(r, '_tb', '')}")
            return
        after = Net.of(r)
        ctx.count("cmp:" + op)
        if after.inputs() != before.inputs() or after.outputs != before.outputs:
            ctx.violation(op + "_io", f"{what}: inputs/outputs changed: {sorted(after.inputs())}/{sorted(after.outputs)}")
        if after.bbs != before.bbs:
            ctx.violation(op + "_bbs", f"{what}: blackbox registry changed")
        if op == "limit_fanin":
            over_before = [n for n, t in before.types.items() if t in G.GATESN and len(before.preds[n]) > k]
            if not over_before:
                ctx.trivial()
            for n in over_before:
                ctx.count(f"regrouped:{before.types[n]}:{'odd' if len(before.preds[n]) % 2 else 'even'}")
            over = [n for n, t in after.types.items() if t in sim.GATES and len(after.preds[n]) > k]
            if over:
                ctx.violation("limit_fanin_bound", f"{what}: {over} still have more than {k} fan-in")
        else:
            over_before = [n for n in before.types if len(before.succs[n]) > k]
            if not over_before:
                ctx.trivial()
            else:
                ctx.count("fanout_split")
            over = [n for n in after.types if len(after.succs[n]) > k]
            if over:
                ctx.violation("limit_fanout_bound", f"{what}: {over} still drive more than {k} loads")
        for n in nodes:
            if n in after.types and after.types[n] != before.types[n]:
                ctx.violation(op + "_type", f"{what}: type of original node {n!r} changed {before.types[n]}->{after.types[n]}")
        probs = own_lint(after)
        if probs:
            ctx.violation(op + "_illformed", f"{what}: result is not well formed: {probs[:3]}")
            return
        compare_functions(ctx, op, before, after, nodes, free, what=what)
        return

    if op == "insert_registers":
        stages = case["stages"]
        lv = {}
        topo = before.topo()
        for n in reversed(topo):
            pass
        # longest path to a source, own computation
        from rv.oracle.graphdefs import levels

        depth = levels(before.preds)
        maxd = max(depth.values())
        inc = round(maxd / (stages + 1))
        if inc < 1:
            ctx.count("skipped:no_stage_boundary")
            ctx.trivial()
            return
        boundaries = list(range(inc, maxd, inc))
        custom = case.get("custom_ff")
        kw = {}
        dp, qp, clkname = "d", "q", "clk"
        if custom:
            # a user-supplied flop type, port names, clock net and q suffix
            dp, qp, clkname = "din", "qout", "clock_net"
            if len(cd["nodes"]) % 2:
                # the clock net is an existing gate of the circuit (gated clock), not a new input
                gts = sorted(n for n, t in before.types.items() if t in G.ALL_GATES)
                clkname = gts[len(cd["edges"]) % len(gts)]
                ctx.count("insert_registers_clock_is_existing_gate")
            ofio = {clkname: "ck"}
            if len(cd["edges"]) % 3 == 0:
                # a second control net that already exists in the circuit, listed before the (new) clock net
                ofio = {sorted(before.inputs())[0]: "en", clkname: "ck"}
                ctx.count("insert_registers_two_other_io_nets")
            kw = dict(ff=cg.BlackBox("myff", ["ck", "din", "en"], ["qout", "qn"]), d_port=dp, q_port=qp, other_flop_io=ofio, q_suffix="_r_")
            ctx.count("insert_registers_custom_flop")
        elif case.get("bare_ff"):
            # a cell with d and q only and an explicitly empty `other_flop_io`: nothing but d and q is connected
            clkname = None
            kw = dict(ff=cg.BlackBox("dly", ["d"], ["q"]), other_flop_io={})
            ctx.count("insert_registers_explicit_empty_other_io")
        ok, r = ctx.call(cg.tx.insert_registers, c, stages, **kw)
        what = f"insert_registers(num_stages={stages}{', custom flop' if custom else ''})"
        if case.get("repeat"):
            ok, r = repeat_call(ctx, op, what, cg.tx.insert_registers, (c, stages), kw, (ok, r))
        if not ok:
            if isinstance(r, ValueError) and "hostile" in case["kind"] and ("overlap" in str(r) or "already" in str(r)):
                ctx.reject("name_clash")
                return
            if isinstance(r, ValueError) and before.bbs and str(r).startswith("cannot connect from bb_"):
                # a stage boundary falls on a pin of a pre-existing blackbox: the library refuses (nothing is returned)
                ctx.reject("register_on_blackbox_pin")
                return
            ctx.violation("insert_registers_raised", f"{what} raised {r!r}\n{getattr(r, '_tb', '')}")
            return
        after = Net.of(r)
        ctx.count("cmp:insert_registers")
        new_insts = [i for i in after.bbs if i not in before.bbs]
        if not boundaries:
            ctx.trivial()
        else:
            ctx.count("registers_inserted", len(new_insts))
        expected_regs = {n for n in nodes if depth[n] in boundaries}
        if len(new_insts) != len(expected_regs):
            ctx.violation("insert_registers_count", f"{what}: {len(new_insts)} flops for {len(expected_regs)} nodes at stage boundaries {boundaries}")
        probs = own_lint(after)
        if probs:
            ctx.violation("insert_registers_illformed", f"{what}: result is not well formed: {probs[:3]}")
            return
        # make flops transparent on a plain copy
        types = dict(after.types)
        preds = {n: list(p) for n, p in after.preds.items()}
        added = set(types) - set(nodes)
        qbufs = set()
        for inst in new_insts:
            bbname, ins, outs = after.bbs[inst]
            d, q = f"{inst}.{dp}", f"{inst}.{qp}"
            if d not in types or q not in types:
                ctx.violation("insert_registers_pins", f"{what}: flop {inst} lacks d/q pins")
                return
            drv = preds[d]
            loads = after.succs[q]
            if len(drv) != 1 or len(loads) != 1:
                ctx.violation("insert_registers_wiring", f"{what}: flop {inst} has d drivers {drv}, q loads {loads}")
                return
            qb = loads[0]
            qbufs.add(qb)
            preds[qb] = [drv[0]]
            for p in list(ins) + list(outs):
                pin = f"{inst}.{p}"
                types.pop(pin, None)
                preds.pop(pin, None)
        pins = {f"{i}.{p}" for i in new_insts for p in after.bbs[i][1] | after.bbs[i][2]}
        extra = added - pins - qbufs
        extra_inputs = {n for n in extra if after.types[n] == "input"}
        if extra - extra_inputs:
            ctx.violation("insert_registers_extra_nodes", f"{what}: unexpected added nodes {sorted(extra - extra_inputs)}")
        if extra_inputs - {clkname}:
            ctx.violation("insert_registers_extra_inputs", f"{what}: primary inputs {sorted(extra_inputs - {clkname})} appeared (only the flop clock `{clkname}` may be added)")
        if after.inputs() - extra_inputs != before.inputs() or after.outputs != before.outputs:
            ctx.violation("insert_registers_io", f"{what}: io changed")
        transparent = Net(types, preds, after.outputs)
        k2 = len(free)
        compare_functions(ctx, "insert_registers", before, transparent, nodes, free, extra_fixed={n: 0 for n in extra_inputs}, what=what + " with flops made transparent")
        return

    if op == "acyclic_unroll":
        ok, r = ctx.call(cg.tx.acyclic_unroll, c)
        what = "acyclic_unroll(acyclic circuit)"
        if not ok and isinstance(r, ValueError) and "hostile" in case["kind"] and ("overlap" in str(r) or "already in circuit" in str(r)):
            ctx.reject("name_clash")
            return
        if not ok:
            ctx.violation("acyclic_unroll_raised", f"{what} raised {r!r}\n{getattr(r, '_tb', '')}")
            return
        after = Net.of(r)
        ctx.count("cmp:acyclic_unroll")
        if any(n in before.inputs() for n in before.outputs):
            ctx.count("output_is_input")
        if after.inputs() != before.inputs() or after.outputs != before.outputs:
            ctx.violation("acyclic_unroll_io", f"{what}: inputs {sorted(after.inputs())} outputs {sorted(after.outputs)} differ from the original's")
            return
        compare_functions(ctx, "acyclic_unroll", before, after, sorted(before.outputs), free, what=what)


def gates(counters, table, tier):
    out = []
    for t in G.GATESN:
        n = counters.get(f"regrouped:{t}:odd", 0) + counters.get(f"regrouped:{t}:even", 0)
        if n < 20:
            out.append(f"{t} regrouped only {n} times")
    for k in ("regrouped:xor:odd", "regrouped:xor:even", "regrouped:xnor:odd", "regrouped:xnor:even", "fanout_split", "registers_inserted", "insert_registers_custom_flop", "insert_registers_clock_is_existing_gate", "cmp:acyclic_unroll", "class:pins", "with_x_constant"):
        if counters.get(k, 0) < 5:
            out.append(f"{k} seen {counters.get(k, 0)} times")
    return out
