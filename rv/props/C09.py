"""C09 - unrolling equals iterated execution."""
from rv.gen import circuits as G
from rv.oracle import sim
from rv.oracle.sim import Net
from rv.props._util import own_lint

RULE = (
    "tx.unroll: random lint-clean acyclic circuits, a random injective pairing of outputs to inputs (0..3 pairs), n in 1..6 chosen so that "
    "#state inputs + n*#other inputs <= 12 (thorough 14); tx.sequential_unroll: the same circuits with 1..3 flip-flop blackboxes of one type "
    "(clk/d/q, CK/D/Q(+R,S), extra unconnected pins), all combinations of add_flop_outputs, initial_values (None,'0','1','x',per-flop dict), "
    "remove_unloaded, ignore_pins; the unrolled circuit is evaluated for ALL valuations of its free signals (= all initial states x all input "
    "sequences) and every io_map[o][t] is compared with step t of an iterated / clocked reference simulation of the ORIGINAL circuit. "
    "non-trivial = n>=2 and >=1 state element; distinct = canonical circuit + parameters"
)
BUDGET = {
    "quick": {"workers": 16, "cases": 800, "secs": 60, "min_cases": 6400},
    "thorough": {"workers": 16, "rounds": 4, "cases": 2200, "secs": 420, "min_cases": 70400},
}
ANCHORS = ["tx:unroll", "tx:sequential_unroll"]

FLOPS = [
    {"name": "ff", "inputs": ["clk", "d"], "outputs": ["q"], "d": "d", "q": "q", "ignore": ["clk"]},
    {"name": "flopd", "inputs": ["CK", "D"], "outputs": ["Q"], "d": "D", "q": "Q", "ignore": ["CK"]},
    {"name": "dffrs", "inputs": ["CK", "D", "R", "S"], "outputs": ["Q", "QN"], "d": "D", "q": "Q", "ignore": ["CK", "R", "S", "QN"]},
    {"name": "reg", "inputs": ["din"], "outputs": ["dout"], "d": "din", "q": "dout", "ignore": []},
    {"name": "GTECH_FD2", "inputs": ["CP", "CD", "D"], "outputs": ["Q", "QN"], "d": "D", "q": "Q", "ignore": ["CD", "CP", "QN"]},
]


def gen(rng, ctx):
    big = ctx.tier == "thorough"
    cap = 14 if big else 12
    if rng.random() < 0.5:
        ni = rng.randint(1, 4)
        ng = rng.randint(1, 8)
        cd = G.rand_circuit(rng, ni, ng, max_fanin=3, n_outputs=rng.randint(1, 3), p_input_output=0.05, p_const=0.1)
        ins = [n for n, t, _ in cd["nodes"] if t == "input"]
        outs = [n for n in G.cd_outputs(cd) if n not in ins]
        npairs = rng.randint(0, min(3, len(ins), len(outs)))
        ks = rng.sample(outs, npairs)
        vs = rng.sample(ins, npairs)
        state_io = dict(zip(ks, vs))
        if rng.random() < 0.12 and len(ins) >= 2 and outs:
            # a feed-through node (input that is also an output) that is the state output of one pair
            # and the state input of another:  a -> b,  o -> a
            a, b = rng.sample(ins, 2)
            cd["nodes"] = [[n, t, (o or n == a)] for n, t, o in cd["nodes"]]
            if rng.random() < 0.5:
                state_io = {a: b, rng.choice(outs): a}
                npairs = 2
            else:
                # ... or only a state output: it stays a free input of every step
                state_io = {a: b}
                npairs = 1
        others = len(ins) - npairs
        nmax = 6 if others == 0 else max(1, min(6, (cap - npairs) // max(1, others)))
        n = rng.randint(1, nmax)
        case = {"op": "unroll", "c": cd, "n": n, "state_io": state_io, "prefix": rng.choice(["cg_unroll", "cg_unroll", "t", "u_0"])}
        if rng.random() < 0.05 and outs:
            o = rng.choice(outs)
            v = rng.choice([x for x, _, _ in cd["nodes"] if x != o])
            try:
                case["c"] = G.cd_rename(cd, {v: f"{o}_{case['prefix']}_0"})
                case["state_io"] = {({v: f"{o}_{case['prefix']}_0"}.get(a, a)): ({v: f"{o}_{case['prefix']}_0"}.get(b, b)) for a, b in state_io.items()}
                case["hostile"] = True
            except ValueError:
                pass
        return case
    # sequential
    ni = rng.randint(1, 3)
    ng = rng.randint(2, 8)
    cd = G.rand_circuit(rng, ni, ng, max_fanin=3, n_outputs=rng.randint(1, 2), p_input_output=0.0, p_const=0.1)
    fl = rng.choice(FLOPS)
    nf = rng.randint(1, 3)
    nodes = [x for x, _, _ in cd["nodes"]]
    tps = G.cd_types(cd)
    multi = [x for x in nodes if tps[x] in G.GATESN]
    drivers = [x for x in nodes if tps[x] in G.ALL_GATES + ["input"]]
    clk_needed = len(fl["inputs"]) > 1
    if clk_needed:
        for p in fl["inputs"]:
            if p != fl["d"] and p in ("clk", "CK", "CP"):
                cd["nodes"].append(["clock", "input", False])
    for k in range(nf):
        inst = f"r{k}"
        cd["bbs"][inst] = {"name": fl["name"], "inputs": list(fl["inputs"]), "outputs": list(fl["outputs"])}
        for p in fl["inputs"]:
            pin = f"{inst}.{p}"
            cd["nodes"].append([pin, "bb_input", False])
            if p == fl["d"]:
                cd["edges"].append([rng.choice(drivers), pin])
            elif p in ("clk", "CK", "CP"):
                cd["edges"].append(["clock", pin])
            elif rng.random() < 0.25 and k > 0 and any(x[0] == f"q{k - 1}" for x in cd["nodes"]):
                # driven by logic that only an earlier flop's Q reaches (dropped together with the pin)
                gname = f"rq{k}_{p}"
                cd["nodes"].append([gname, rng.choice(["not", "buf"]), False])
                cd["edges"] += [[f"q{k - 1}", gname], [gname, pin]]
            elif rng.random() < 0.2:
                # a control pin fed by a primary input that the logic uses as well (it must survive the pin's removal)
                cd["edges"].append([rng.choice([x for x in nodes if tps[x] == "input"]), pin])
            elif rng.random() < 0.5:
                if not any(x[0] == "rst" for x in cd["nodes"]):
                    cd["nodes"].append(["rst", "input", False])
                cd["edges"].append(["rst", pin])
        for p in fl["outputs"]:
            pin = f"{inst}.{p}"
            cd["nodes"].append([pin, "bb_output", False])
            if p == fl["q"] and k > 0 and rng.random() < 0.12:
                continue  # a flop whose Q pin is left open (nothing reads its state)
            if p == fl["q"]:
                w = f"q{k}"
                isout = (not multi) or rng.random() < 0.25
                cd["nodes"].append([w, "buf", isout])
                cd["edges"].append([pin, w])
                for g in rng.sample(multi, min(len(multi), rng.randint(0 if isout else 1, 2))):
                    cd["edges"].append([w, g])
                drivers.append(w)
    # a flop whose Q reaches nothing but a pin that sequential_unroll drops
    edges_to = {e[1] for e in cd["edges"]}
    spare = [n for n, t, _ in cd["nodes"] if t == "bb_input" and n not in edges_to and not n.endswith("." + fl["d"])]
    if spare and rng.random() < 0.5 and nf < 3:
        inst = f"r{nf}"
        cd["bbs"][inst] = {"name": fl["name"], "inputs": list(fl["inputs"]), "outputs": list(fl["outputs"])}
        for p_ in fl["inputs"]:
            cd["nodes"].append([f"{inst}.{p_}", "bb_input", False])
            if p_ == fl["d"]:
                cd["edges"].append([rng.choice(drivers), f"{inst}.{p_}"])
            elif p_ in ("clk", "CK", "CP"):
                cd["edges"].append(["clock", f"{inst}.{p_}"])
        for p_ in fl["outputs"]:
            cd["nodes"].append([f"{inst}.{p_}", "bb_output", False])
        cd["nodes"] += [["qz", "buf", False], ["nz", "not", False]]
        cd["edges"] += [[f"{inst}.{fl['q']}", "qz"], ["qz", "nz"], ["nz", rng.choice(spare)]]
        nf += 1
    if rng.random() < 0.1:
        # a feed-through port: an input that is also an output and drives nothing else
        cd["nodes"].append(["thru", "input", True])
        ni += 1
    if rng.random() < 0.06:
        # a primary input / output net that carries the NAME of a flop instance (ff q0 (.Q(q0)) style)
        io_ = [x for x in nodes if tps[x] == "input" or x in G.cd_outputs(cd)]
        if io_:
            try:
                cd = G.cd_rename(cd, {rng.choice(io_): f"r{rng.randrange(nf)}"})
            except ValueError:
                pass
    if rng.random() < 0.1:
        # ordinary nets named like a flattened pin (wr_EN, scan_CK ...): they are not pins
        cand = [x for x in nodes if tps[x] in G.ALL_GATES]
        pins_ = [p for p in fl["inputs"] + fl["outputs"] if p not in (fl["d"], fl["q"])]
        if cand and pins_:
            try:
                cd = G.cd_rename(cd, {rng.choice(cand): f"{rng.choice(['wr', 'scan', 'r0', 'x'])}_{rng.choice(pins_)}"})
            except ValueError:
                pass
    free_in = ni + (1 if any(x[0] == "rst" for x in cd["nodes"]) else 0) + 1
    iv_mode = rng.choice(["none", "none", "0", "1", "x", "dict", "dict"])
    if iv_mode == "dict":
        iv = {f"r{k}": rng.choice(["0", "1"]) for k in range(nf) if rng.random() < 0.7}
    elif iv_mode == "none":
        iv = None
    else:
        iv = iv_mode
    nstate = nf if iv is None else (nf - len(iv) if isinstance(iv, dict) else 0)
    nmax = max(1, min(6, (cap - nstate) // free_in))
    n = rng.randint(1, nmax)
    ignore = rng.choice([fl["ignore"], fl["ignore"][:1], None, fl["ignore"][0] if fl["ignore"] else None])
    return {
        "op": "sequential_unroll",
        "c": cd,
        "n": n,
        "flop": fl,
        "ignore_pins": ignore,
        "add_flop_outputs": rng.random() < 0.5,
        "initial_values": iv,
        "remove_unloaded": rng.random() < 0.6,
        "prefix": rng.choice(["cg_unroll", "cg_unroll", "s"]),
    }


def check_iomap(ctx, op, io_map, expect_keys, n):
    if set(io_map) != set(expect_keys):
        ctx.violation(op + "_iomap_keys", f"io_map keys {sorted(io_map)} != circuit io {sorted(expect_keys)}")
        return False
    bad = [k for k, v in io_map.items() if len(v) != n or len(set(v)) != n]
    if bad:
        ctx.violation(op + "_iomap_len", f"io_map lists of {bad} do not have {n} distinct entries")
        return False
    return True


def check(case, ctx):
    cg = ctx.cg
    cd = case["c"]
    c = G.build(cg, cd, "sparse" if len(cd["nodes"]) % 3 == 0 else "graph")
    net = Net.of(c)
    n = case["n"]
    op = case["op"]
    ctx.count(f"op:{op}")
    ctx.count(f"n:{n}")

    if op == "unroll":
        state_io = case["state_io"]
        sarg = dict(state_io)
        ok, r = ctx.call(cg.tx.unroll, c, n, sarg, prefix=case["prefix"])
        what = f"unroll(n={n}, state_io={state_io})"
        ctx.count("cmp:arguments_unchanged")
        if sarg != state_io or list(sarg) != list(state_io):
            ctx.violation("unroll_modified_state_io", f"{what}: the caller's state_io dict is now {sarg}")
            return
        if not ok:
            if case.get("hostile") and isinstance(r, ValueError) and ("already" in str(r) or "overlap" in str(r)):
                ctx.reject("name_clash")
                return
            ctx.violation("unroll_raised", f"{what} raised {r!r}\n{getattr(r, '_tb', '')}")
            return
        uc, io_map = r
        un = Net.of(uc)
        ctx.count("cmp:unroll")
        ctx.count(f"pairs:{len(state_io)}")
        if set(state_io) & set(state_io.values()):
            ctx.count("feedthrough_state_pair")
        if any(k_ in net.inputs() and k_ not in state_io.values() for k_ in state_io):
            ctx.count("state_output_is_a_free_input")
        if n < 2 or not state_io:
            ctx.trivial()
        ins = sorted(net.inputs())
        io = set(ins) | net.outputs
        if not check_iomap(ctx, "unroll", io_map, io, n):
            return
        state_in = sorted(state_io.values())
        others = [i for i in ins if i not in state_in]
        want_inputs = {io_map[v][0] for v in state_in} | {io_map[i][t] for i in others for t in range(n)}
        if un.inputs() != want_inputs:
            ctx.violation("unroll_inputs", f"{what}: inputs {sorted(un.inputs())} != step-0 state inputs + per-step copies {sorted(want_inputs)}")
            return
        want_outputs = {io_map[o][t] for o in net.outputs for t in range(n)}
        if un.outputs != want_outputs:
            ctx.violation("unroll_outputs", f"{what}: outputs {sorted(un.outputs)} != per-step copies of the outputs {sorted(want_outputs)}")
            return
        probs = own_lint(un)
        if probs:
            ctx.violation("unroll_illformed", f"{what}: {probs[:3]}")
            return
        order = sorted(want_inputs)
        if set(un.free()) != set(order):
            ctx.violation("unroll_free", f"{what}: free signals {sorted(un.free())} include undriven nodes")
            return
        if len(order) > 14:
            ctx.count("skipped:too_many_free")
            return
        uv, k = sim.functions(un, order)
        pos = {x: sim.var_bits(i, k) for i, x in enumerate(order)}
        prev = None
        for t in range(n):
            fixed = {}
            for i in others:
                fixed[i] = pos[io_map[i][t]]
            for ko, vi in state_io.items():
                fixed[vi] = pos[io_map[vi][0]] if t == 0 else prev[ko]
            sv, _ = sim.functions(net, [], fixed=fixed, k=k)
            for x in io:
                if uv[io_map[x][t]] != sv[x]:
                    d = uv[io_map[x][t]] ^ sv[x]
                    j = (d & -d).bit_length() - 1
                    ctx.violation("unroll_value", f"{what}: {io_map[x][t]!r} (io {x!r} at step {t}) = {sim.bit_at(uv[io_map[x][t]], j)} but iterated execution gives {sim.bit_at(sv[x], j)} under {sim.index_valuation(order, j)}")
                    return
            prev = sv
        ctx.count("steps_compared", n)
        return

    # ------------------------------------------------------------------ sequential
    fl = case["flop"]
    D, Q = fl["d"], fl["q"]
    iv = case["initial_values"]
    kw = dict(ignore_pins=case["ignore_pins"], add_flop_outputs=case["add_flop_outputs"], initial_values=(dict(iv) if isinstance(iv, dict) else iv), remove_unloaded=case["remove_unloaded"], prefix=case["prefix"])
    what = f"sequential_unroll(n={n}, {D}, {Q}, {kw})"
    # a copy made (and edited) before the call must not matter to the original
    if len(cd["nodes"]) % 3 == 0:
        cc = c.copy()
        cc.blackboxes["zz_phantom"] = cg.BlackBox("zz", ["a"], ["b"])
        cc.graph.add_node("zz_phantom.a", type="bb_input", output=False)
        ctx.count("copy_edited_before_call")
    ip0 = list(kw["ignore_pins"]) if isinstance(kw["ignore_pins"], list) else None
    ok, r = ctx.call(cg.tx.sequential_unroll, c, n, D, Q, **kw)
    ctx.count("cmp:arguments_unchanged")
    if ip0 is not None and kw["ignore_pins"] != ip0:
        ctx.violation("sequential_unroll_modified_ignore_pins", f"{what}: the caller's ignore_pins list is now {kw['ignore_pins']}")
        return
    # the cell definitions are shared by every instance and every later call: an unroll must not edit them
    try:
        G._check_registry(c, cd)
        ctx.count("cmp:cell_definitions_unchanged")
    except G.Misbehaved as e:
        ctx.violation("cell_definition_changed_by_unroll", f"{what}: {e.detail}")
        return
    if ok and isinstance(iv, dict) and iv:
        # the same initial_values object used for a second call (callers sweep n with one dict)
        ctx.count("iv_dict_reused")
        if kw["initial_values"] != iv:
            ctx.count("note:initial_values_dict_modified_by_call")
        ok2, r2 = ctx.call(cg.tx.sequential_unroll, c, 1, D, Q, **kw)
        if not ok2:
            ctx.violation("sequential_unroll_raised", f"second call with the same initial_values object raised {r2!r}")
            return
        u2, m2 = r2
        for inst_, v_ in iv.items():
            t2 = u2.graph.nodes[m2[f"{inst_}_{Q}"][0]].get("type")
            if t2 != v_:
                ctx.violation("sequential_unroll_initial", f"second call with the same initial_values object: flop {inst_} starts as node type {t2!r}, requested {v_!r}")
                return
    if not ok and isinstance(r, ValueError) and str(r).startswith("Overlapping blackbox name: ") and str(r).split(": ", 1)[1] in net.types:
        # an ordinary net already carries the name a (non-ignored) pin gets when the flops are flattened: documented refusal
        ctx.reject("flattened_pin_name_taken")
        return
    if not ok:
        ctx.violation("sequential_unroll_raised", f"{what} raised {r!r}\n{getattr(r, '_tb', '')}")
        return
    uc, io_map = r
    un = Net.of(uc)
    ctx.count("cmp:sequential_unroll")
    ctx.count(f"iv:{'dict' if isinstance(iv, dict) else iv}")
    ctx.count(f"flop_outputs:{case['add_flop_outputs']}")
    ctx.count(f"remove_unloaded:{case['remove_unloaded']}")
    ctx.count(f"flops:{len(net.bbs)}")
    if isinstance(case["ignore_pins"], str):
        ctx.count("str_ignore_pins")
    if "qz" in net.types:
        ctx.count("flop_q_reaches_only_dropped_pin")
    if n < 2:
        ctx.trivial()
    insts = sorted(net.bbs)
    ign = case["ignore_pins"]
    ign = [] if not ign else ([ign] if isinstance(ign, str) else list(ign))
    removed_pins = {f"{i}.{p}" for i in insts for p in (set(fl["inputs"]) - {D}) | (set(fl["outputs"]) - {Q})}
    prim = sorted(net.inputs())
    kept = []
    for i in prim:
        loads = [s for s in net.succs[i] if s not in removed_pins]
        if loads or not case["remove_unloaded"] or i in net.outputs:
            kept.append(i)  # an input that is also an output is never "unloaded"
    if any(i in net.outputs for i in prim):
        ctx.count("input_is_output")
    if any(not net.succs.get(f"{i}.{Q}") for i in insts):
        ctx.count("flop_with_open_q_pin")
    dnames = {i: f"{i}_{D}" for i in insts}
    qnames = {i: f"{i}_{Q}" for i in insts}
    expect_io = set(kept) | net.outputs | set(dnames.values()) | set(qnames.values())
    if not check_iomap(ctx, "sequential_unroll", io_map, expect_io, n):
        return
    init = {}
    for i in insts:
        if isinstance(iv, dict):
            init[i] = iv.get(i)
        else:
            init[i] = iv
    free_q = [i for i in insts if init[i] is None]
    want_inputs = {io_map[qnames[i]][0] for i in free_q} | {io_map[x][t] for x in kept for t in range(n)}
    if un.inputs() != want_inputs:
        ctx.violation("sequential_unroll_inputs", f"{what}: inputs {sorted(un.inputs())} != free initial state + per-step input copies {sorted(want_inputs)}")
        return
    want_outputs = {io_map[o][t] for o in net.outputs for t in range(n)}
    if case["add_flop_outputs"]:
        want_outputs |= {io_map[dnames[i]][t] for i in insts for t in range(n)}
    if un.outputs != want_outputs:
        ctx.violation("sequential_unroll_outputs", f"{what}: outputs {sorted(un.outputs)} != {sorted(want_outputs)}")
        return
    plain = {m for m in net.types if "." not in m}  # ordinary nets may be NAMED like a flattened pin (r0_CK); they are not pins
    leftover = [x for x in un.types if any(x.endswith(f"{i}_{p}") or f"{i}_{p}_" in x for i in insts for p in (set(fl["inputs"]) | set(fl["outputs"])) - {D, Q}) and not any(x.endswith("_" + m) or x.startswith(m + "_") for m in plain)]
    if leftover:
        ctx.violation("sequential_unroll_pins_left", f"{what}: nodes of removed/ignored pins survive: {leftover[:4]}")
        return
    for i in insts:
        if init[i] is not None:
            t0 = un.types.get(io_map[qnames[i]][0])
            if t0 != init[i]:
                ctx.violation("sequential_unroll_initial", f"{what}: initial value of flop {i} is node type {t0!r}, requested {init[i]!r}")
                return
    if un.bbs:
        ctx.violation("sequential_unroll_bbs", f"{what}: blackboxes remain: {sorted(un.bbs)}")
        return
    if any(v == "x" for v in init.values()):
        ctx.count("x_initial_structural_only")
        return
    order = sorted(want_inputs)
    if set(un.free()) != set(order):
        ctx.violation("sequential_unroll_free", f"{what}: free signals {sorted(un.free())} != inputs {order}")
        return
    if len(order) > 14:
        ctx.count("skipped:too_many_free")
        return
    uv, k = sim.functions(un, order)
    mask = (1 << (1 << k)) - 1
    pos = {x: sim.var_bits(j, k) for j, x in enumerate(order)}
    state = {}
    for i in insts:
        if init[i] is None:
            state[i] = pos[io_map[qnames[i]][0]]
        else:
            state[i] = mask if init[i] == "1" else 0
    for t in range(n):
        fixed = {f"{i}.{Q}": state[i] for i in insts}
        for i in insts:
            for p in fl["outputs"]:
                if p != Q:
                    fixed[f"{i}.{p}"] = 0  # unconnected extra outputs: no load, value irrelevant
        for x in prim:
            fixed[x] = pos[io_map[x][t]] if x in kept else 0
        for x in net.free():
            fixed.setdefault(x, 0)  # unconnected flop pins: no influence on any output
        sv, _ = sim.functions(net, [], fixed=fixed, k=k)
        for o in net.outputs:
            if uv[io_map[o][t]] != sv[o]:
                d = uv[io_map[o][t]] ^ sv[o]
                j = (d & -d).bit_length() - 1
                ctx.violation("sequential_unroll_value", f"{what}: output {o!r} at cycle {t} ({io_map[o][t]!r}) = {sim.bit_at(uv[io_map[o][t]], j)} but clocked simulation gives {sim.bit_at(sv[o], j)} under {sim.index_valuation(order, j)}")
                return
        for i in insts:
            dv = sv[f"{i}.{D}"]
            if uv[io_map[dnames[i]][t]] != dv:
                ctx.violation("sequential_unroll_d_value", f"{what}: D of flop {i} at cycle {t} differs from clocked simulation")
                return
            if uv[io_map[qnames[i]][t]] != state[i]:
                ctx.violation("sequential_unroll_q_value", f"{what}: Q of flop {i} at cycle {t} differs from clocked simulation")
                return
        state = {i: sv[f"{i}.{D}"] for i in insts}
    ctx.count("cycles_compared", n)


def gates(counters, table, tier):
    need = ["flop_q_reaches_only_dropped_pin", "copy_edited_before_call", "iv_dict_reused", "feedthrough_state_pair", "state_output_is_a_free_input", "input_is_output", "flop_with_open_q_pin", "str_ignore_pins", "cmp:unroll", "cmp:sequential_unroll", "pairs:0", "pairs:1", "pairs:2", "iv:None", "iv:0", "iv:1", "iv:dict", "iv:x", "flop_outputs:True", "flop_outputs:False", "remove_unloaded:True", "remove_unloaded:False", "n:1", "n:3", "flops:1", "flops:2", "flops:3"]
    return [f"{k} seen {counters.get(k, 0)} times" for k in need if counters.get(k, 0) < 5]
