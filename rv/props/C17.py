"""C17 - supergate decomposition covers the circuit with independent-input blocks."""
from rv.gen import circuits as G
from rv.oracle import sim
from rv.oracle.graphdefs import reach
from rv.oracle.sim import Net

RULE = (
    "random lint-clean blackbox-free circuits: trees, reconvergent diamonds, heavily shared multi-output cones, gates with >2 inputs; the return "
    "value of the INTERNAL limit_fanin(c,2) call is captured through a rebinding of tx.limit_fanin so that every supergate is compared with exactly "
    "the fan-in-limited circuit the function used: single output, topological list order, cover of all gates in the cone of the outputs, internal nodes "
    "with identical type and fan-in, pairwise disjoint ({i} + ancestors(i)) for the inputs of each supergate; construct_supercircuit=True on single-output "
    "circuits: harness substitutes each supergate for its blackbox and compares the output function for ALL input valuations. "
    "Also circuits deeper than the recursion limit (chains of 1100..1500 inverters, ladders of 500..650 nested reconvergent blocks). non-trivial = >=1 reconvergent fan-out or >=2 supergates; distinct = canonical circuit + mode"
)
BUDGET = {
    "quick": {"workers": 16, "cases": 900, "secs": 60, "min_cases": 7200},
    "thorough": {"workers": 16, "rounds": 4, "cases": 2400, "secs": 420, "min_cases": 76800},
}
SIBLINGS = True  # consecutive cases with identical structure and different gate types
ANCHORS = ["tx:supergates"]


def gen(rng, ctx):
    big = ctx.tier == "thorough"
    if rng.random() < (0.004 if big else 0.0005) or (ctx.gen_index == 0 and ctx.index < 3):
        # blackbox-free bundled netlists; for the super-circuit form the cone of one output
        name = rng.choice(["c17", "mux_2", "mux_4", "c17_gates"] + (["c432", "c880", "c499"] if big else ["c432"])) if ctx.gen_index else ["c17", "mux_4", "c432"][ctx.index % 3]
        return {"lib": name, "supercircuit": rng.random() < 0.4, "shape": "lib", "seed": rng.getrandbits(32)}
    if rng.random() < 0.0007 or (ctx.gen_index == 1 and ctx.index < 4):
        return gen_deep(rng, None if ctx.gen_index != 1 else ctx.index % 2 == 0)
    ni = rng.randint(2, 6 if not big else 8)
    ng = rng.randint(2, 10 if not big else 18)
    shape = rng.choice(["tree", "diamond", "random", "random", "multi", "wide", "chain"])
    sup = rng.random() < 0.4
    cd = G.rand_circuit(rng, ni, ng, max_fanin=rng.choice([4, 4, 4, 8]), p_wide=0.25, shape=shape, allow_x=rng.random() < 0.15, p_const=0.1, n_outputs=1 if sup else rng.randint(1, 4), p_input_output=0.03, ensure_loaded=not sup)
    if sup and rng.random() < 0.08:
        # several outputs with construct_supercircuit=True: the library must refuse, or be right
        cd2 = G.rand_circuit(rng, ni, ng, max_fanin=3, shape=rng.choice(["chain", "random"]), n_outputs=rng.randint(2, 3), p_input_output=0.0, p_const=0.0)
        return {"c": cd2, "supercircuit": True, "shape": "multi_output_supercircuit"}
    if sup:
        # single output: keep only the cone of one output
        outs = G.cd_outputs(cd)
        tps = G.cd_types(cd)
        gates_ = [n for n in outs if tps[n] in G.ALL_GATES] or outs
        o = rng.choice(gates_)
        preds = G.cd_preds(cd)
        keep = {o}
        st = [o]
        while st:
            x = st.pop()
            for p in preds[x]:
                if p not in keep:
                    keep.add(p)
                    st.append(p)
        cd = {"name": cd["name"], "nodes": [[n, t, n == o] for n, t, _ in cd["nodes"] if n in keep], "edges": [e for e in cd["edges"] if e[0] in keep and e[1] in keep], "bbs": {}}
        cone_gates = [n for n, t, _ in cd["nodes"] if t in G.ALL_GATES]
        if len(cone_gates) >= 2 and rng.random() < 0.2:
            # logic that no output observes, hanging off the cone
            a_, b_ = rng.sample(cone_gates, 2)
            cd["nodes"].append(["dangle", rng.choice(["nand", "xor", "or"]), False])
            cd["edges"] += [[a_, "dangle"], [b_, "dangle"]]
            shape += "+dangling"
        if rng.random() < 0.25:
            # primary inputs outside the cone of the output (unused, or feeding logic that is not an output)
            cd["nodes"].append(["spare_in", "input", False])
            if rng.random() < 0.5:
                cd["nodes"] += [["spare_in2", "input", False], ["spare_g", "and", False]]
                cd["edges"] += [["spare_in", "spare_g"], ["spare_in2", "spare_g"]]
            shape += "+spare_input"
    if not sup and rng.random() < 0.06:
        cd["nodes"].append(["kout", rng.choice(["0", "1", "x"]), True])  # a tie cell that is itself a primary output
        shape += "+constant_output"
    if rng.random() < 0.1:
        # a node already carrying the name limit_fanin would give its helper gate (e.g. the circuit came out of limit_fanin(c, 3))
        preds = G.cd_preds(cd)
        tps = G.cd_types(cd)
        wide = [n for n, t, _ in cd["nodes"] if t in G.GATESN and len(preds[n]) > 2]
        if wide:
            g = rng.choice(wide)
            victims = [n for n, t, _ in cd["nodes"] if n != g and t in G.ALL_GATES]
            if victims:
                try:
                    cd = G.cd_rename(cd, {rng.choice(victims): f"{g}_limit_fanin_{rng.choice([0, 0, 1])}"})
                    shape += "+hostile"
                except ValueError:
                    pass
    return {"c": cd, "supercircuit": sup, "shape": shape}


def gen_deep(rng, chain=None):
    """Deeper than the interpreter's recursion limit: a chain of 1100..1500 buffers / inverters, or a ladder of
    500..650 nested reconvergent blocks (x' = gate(buf x, not x, side input))."""
    cd = G.new_cdict("deep")
    cd["nodes"] += [["x", "input", False], ["s", "input", False]]
    prev = "x"
    if (rng.random() < 0.5) if chain is None else chain:
        shape = "deep_chain"
        for i in range(rng.randint(1100, 1500)):
            cd["nodes"].append([f"d{i}", rng.choice(["buf", "not"]), False])
            cd["edges"].append([prev, f"d{i}"])
            prev = f"d{i}"
        cd["nodes"].append(["o", "and", True])
        cd["edges"] += [[prev, "o"], ["s", "o"]]
    else:
        shape = "deep_ladder"
        for i in range(rng.randint(500, 650)):
            a, b, y = f"a{i}", f"b{i}", f"y{i}"
            cd["nodes"] += [[a, "buf", False], [b, "not", False], [y, rng.choice(["or", "nand", "xor"]), False]]
            cd["edges"] += [[prev, a], [prev, b], [a, y], [b, y]]
            if rng.random() < 0.3:
                cd["edges"].append(["s", y])
            prev = y
        cd["nodes"][-1][2] = True
    return {"c": cd, "supercircuit": rng.random() < 0.3, "shape": shape}


def check(case, ctx):
    cg = ctx.cg
    if "lib" in case:
        import random

        from rv.gen import libnets

        cd = libnets.load(cg, case["lib"])
        if case["supercircuit"]:
            rr = random.Random(case["seed"])
            o = rr.choice(sorted(x[0] for x in cd["nodes"] if x[2]))
            preds = G.cd_preds(cd)
            keep, st = {o}, [o]
            while st:
                x = st.pop()
                for p_ in preds[x]:
                    if p_ not in keep:
                        keep.add(p_)
                        st.append(p_)
            cd = {"name": cd["name"], "nodes": [[n, t, n == o] for n, t, _ in cd["nodes"] if n in keep], "edges": [e for e in cd["edges"] if e[0] in keep and e[1] in keep], "bbs": {}}
        case = dict(case, c=cd)
        ctx.cur_case = case  # violations (and known-finding classifiers) see the circuit itself
        ctx.count(f"lib:{case['lib']}")
    cd = case["c"]
    c = G.build(cg, cd, "sparse" if len(cd["nodes"]) % 3 == 0 else "graph")
    net = Net.of(c)
    ctx.count(f"shape:{case['shape'].split('+')[0]}")
    if "hostile" in case["shape"]:
        ctx.count("hostile_helper_names")
    if "constant_output" in case["shape"]:
        ctx.count("constant_cell_is_an_output")
    if "dangling" in case["shape"]:
        ctx.count("unobserved_gate_next_to_the_cone")
    if "spare_input" in case["shape"]:
        ctx.count("input_outside_the_output_cone")
    ctx.count(f"supercircuit:{case['supercircuit']}")
    captured = []
    orig = cg.tx.limit_fanin

    def observed(cc, k):
        r = orig(cc, k)
        captured.append((k, r))
        return r

    cg.tx.limit_fanin = observed
    try:
        ok, r = ctx.call(cg.tx.supergates, c, case["supercircuit"])
    finally:
        cg.tx.limit_fanin = orig
    if case["supercircuit"] and net.outputs and net.outputs <= net.inputs():
        ctx.count("supercircuit_of_feedthrough_output")  # nothing to decompose: the super-circuit is the feed-through
    if not ok and case["supercircuit"] and len(net.outputs) > 1 and isinstance(r, ValueError):
        ctx.reject("supercircuit_needs_single_output")
        return
    if not ok:
        ctx.violation("supergates_raised", f"supergates raised {r!r}\n{getattr(r, '_tb', '')}")
        return
    if case["supercircuit"] and len(net.outputs) > 1:
        ctx.count("multi_output_supercircuit_accepted")
    ctx.count("cmp:supergates")
    if len(captured) != 1 or captured[0][0] != 2:
        ctx.count("note:internal_limit_fanin_not_observed")
        lim = Net.of(c)
    else:
        lim = Net.of(captured[0][1])
        ctx.count("internal_limit_fanin_observed")
    if case["supercircuit"]:
        try:
            superc, smap = r
            sgs = list(smap.values())
        except Exception as e:  # noqa: BLE001
            ctx.violation("supergates_result", f"unexpected result {r!r}: {e!r}")
            return
    else:
        sgs = list(r)
    sn = [Net.of(s) for s in sgs]
    from rv.oracle.graphdefs import reconvergent

    if len(sn) < 2 and not reconvergent(lim.succs):
        ctx.trivial()
    if reconvergent(lim.succs):
        ctx.count("has_reconvergence")
    ctx.count(f"supergates:{len(sn) if len(sn) < 5 else '5+'}")
    # 1. single output
    for s in sn:
        if len(s.outputs) != 1:
            ctx.violation("supergate_outputs", f"supergate with outputs {sorted(s.outputs)}")
            return
    # 2. internal wiring identical to the limited circuit
    for s in sn:
        for n, t in s.types.items():
            if n not in lim.types:
                ctx.violation("supergate_foreign_node", f"supergate {sorted(s.outputs)} contains {n!r} which is not in the fan-in-limited circuit")
                return
            if t == "input" and lim.types[n] != "input":
                if s.preds[n]:
                    ctx.violation("supergate_wiring", f"supergate input {n!r} has fan-in")
                    return
                continue
            if t != lim.types[n] or set(s.preds[n]) != set(lim.preds[n]):
                ctx.violation("supergate_wiring", f"supergate {sorted(s.outputs)}: node {n!r} is {t}{sorted(s.preds[n])}, in the circuit it is {lim.types[n]}{sorted(lim.preds[n])}")
                return
    # 3. cover
    cone = set()
    for o in lim.outputs:
        cone |= reach(lim.preds, [o]) | {o}
    # gates of the cones, and tie cells that are themselves outputs (each is a block of its own)
    gates_in_cone = {n for n in cone if lim.types[n] in sim.GATES} | {o for o in lim.outputs if lim.types[o] in ("0", "1", "x")}
    covered = set()
    for s in sn:
        covered |= {n for n, t in s.types.items() if not (t == "input")}
    missing = gates_in_cone - covered
    if missing:
        ctx.violation("supergate_cover", f"gates {sorted(missing)} in the cone of the outputs are in no supergate")
        return
    # 4. independent inputs
    anc = {}
    for s in sn:
        ins = sorted(n for n, t in s.types.items() if t == "input")
        for i in ins:
            if i not in anc:
                anc[i] = reach(lim.preds, [i]) | {i}
        for a in range(len(ins)):
            for b in range(a + 1, len(ins)):
                common = anc[ins[a]] & anc[ins[b]]
                if common:
                    ctx.violation("supergate_inputs_not_independent", f"supergate {sorted(s.outputs)}: inputs {ins[a]!r} and {ins[b]!r} share transitive fan-in {sorted(common)[:4]}")
                    return
    # 5. topological order (list form)
    if not case["supercircuit"]:
        internal = [{n for n, t in s.types.items() if t != "input"} for s in sn]
        for bi, s in enumerate(sn):
            ins = {n for n, t in s.types.items() if t == "input"} - lim.inputs()
            for ai in range(bi + 1, len(sn)):
                if ins & internal[ai]:
                    ctx.violation("supergate_order", f"supergate {sorted(s.outputs)} (position {bi}) reads {sorted(ins & internal[ai])}, computed inside the later supergate {sorted(sn[ai].outputs)} (position {ai})")
                    return
        return
    # 6. super-circuit: substitute supergates for blackboxes
    spn = Net.of(superc)
    if set(spn.bbs) != set(smap):
        ctx.violation("supercircuit_registry", f"blackboxes {sorted(spn.bbs)} != map keys {sorted(smap)}")
        return
    if spn.inputs() != net.inputs() or spn.outputs != net.outputs:
        ctx.violation("supercircuit_io", f"super-circuit io {sorted(spn.inputs())}/{sorted(spn.outputs)} != original {sorted(net.inputs())}/{sorted(net.outputs)}")
        return
    ins = sorted(net.inputs())
    if len(ins) > 12:
        return
    xs = sorted(n for n, t in net.types.items() if t == "x")  # unknown-value constants: opaque sources with their own name
    k = len(ins) + len(xs)
    vals, _ = sim.functions(net, ins + xs)
    pos = {x: sim.var_bits(i, k) for i, x in enumerate(ins + xs)}
    mask = (1 << (1 << k)) - 1
    memo = {}
    sgnet = {name: Net.of(s) for name, s in smap.items()}
    active = set()

    def ev(n):
        if n in memo:
            return memo[n]
        if n in active:
            raise ValueError(f"combinational loop through {n!r} in the super-circuit")
        active.add(n)
        t = spn.types[n]
        if t == "input":
            v = pos[n]
        elif t == "0":
            v = 0
        elif t == "1":
            v = mask
        elif t == "x":
            if n not in pos:
                raise ValueError(f"unknown-value constant {n!r} is not a node of the original circuit")
            v = pos[n]
        elif t == "bb_output":
            inst, pin = n.split(".", 1)
            s = sgnet[inst]
            fixed = {}
            for i in s.inputs():
                drv = spn.preds.get(f"{inst}.{i}", [])
                if len(drv) != 1:
                    raise ValueError(f"pin {inst}.{i} has drivers {drv}")
                fixed[i] = ev(drv[0])
            fixed.update({x: pos[x] for x in xs if s.types.get(x) == "x"})
            sv, _ = sim.functions(s, [], fixed=fixed, k=k)
            if pin not in sv:
                raise ValueError(f"supergate {inst} has no node {pin!r}")
            v = sv[pin]
        else:
            if not spn.preds[n]:
                raise ValueError(f"undriven node {n!r} in the super-circuit")
            v = sim.gate_bits(t, [ev(p) for p in spn.preds[n]], mask)
        active.discard(n)
        memo[n] = v
        return v

    ctx.count("cmp:supercircuit")
    for o in sorted(net.outputs):
        try:
            got = ev(o)
        except (ValueError, KeyError) as e:
            ctx.violation("supercircuit_not_evaluable", f"super-circuit with supergates substituted cannot be evaluated: {e!r}")
            return
        if got != vals[o]:
            d = got ^ vals[o]
            j = (d & -d).bit_length() - 1
            ctx.violation("supercircuit_function", f"super-circuit with supergates substituted gives {o!r}={sim.bit_at(got, j)} instead of {sim.bit_at(vals[o], j)} under {sim.index_valuation(ins + xs, j)}")
            return


def gates(counters, table, tier):
    need = ["hostile_helper_names", "supercircuit:True", "supercircuit:False", "has_reconvergence", "internal_limit_fanin_observed", "supergates:1", "supergates:2", "supergates:3", "cmp:supercircuit", "input_outside_the_output_cone"]
    return [f"{k} seen {counters.get(k, 0)} times" for k in need if counters.get(k, 0) < 5] + [f"{k} never seen" for k in ("shape:deep_chain", "shape:deep_ladder") if not counters.get(k)]
