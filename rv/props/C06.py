"""C06 - hierarchical composition is functional substitution."""
from rv.gen import circuits as G
from rv.monitor import snapshot, snapshot_diff
from rv.oracle import compose as K
from rv.oracle import sim
from rv.oracle.graphdefs import has_cycle
from rv.oracle.sim import Net

RULE = (
    "histories of 1..5 composition calls on a random parent with undriven 'hole' buffers: add_subcircuit (children with 1..3 inputs, optional nested "
    "blackboxes, the same child instantiated up to 3x under different names, full/partial connection maps, inputs fed from arbitrary nets, outputs driving "
    "hole buffers), add_blackbox followed - possibly after other calls - by fill_blackbox, and a final strip_blackboxes with/without ignore_pins (str, list, tuple, set, frozenset); add_subcircuit also with strip_io=False (io kept; a connection onto a kept input must be refused). After every call "
    "the parent's (types, output marks, edges, registry) must equal the state computed by a dict/set model of the call, the child must be unchanged, and for ALL "
    "valuations of the composite's free signals every spliced node name_n equals n in a separate simulation of the child fed with the attached nets' values and every "
    "pre-existing node keeps its value. non-trivial = >=2 calls; distinct = canonical history"
)
BUDGET = {
    "quick": {"workers": 16, "cases": 800, "secs": 60, "min_cases": 6400},
    "thorough": {"workers": 16, "rounds": 4, "cases": 2200, "secs": 420, "min_cases": 70400},
}
BUILD_VERDICTS = ("blackbox_definition_changed",)  # the registry is part of this property (see gen.circuits.Misbehaved)
ANCHORS = ["circuit:Circuit.add_subcircuit", "circuit:Circuit.fill_blackbox", "circuit:Circuit.add_blackbox", "tx:strip_blackboxes"]


def gen_child(rng, idx):
    while True:
        cd = _gen_child(rng, idx)
        if not [n for n, t, o in cd["nodes"] if t == "input" and o]:
            return cd  # a pin cannot be both input and output of a blackbox


def _gen_child(rng, idx):
    ni = rng.randint(1, 3)
    cd = G.rand_circuit(rng, ni, rng.randint(1, 5), max_fanin=3, name=f"child{idx}", in_prefix="a", gate_prefix="y", n_outputs=rng.randint(1, 2), p_input_output=0.0, p_const=0.1, p_const_output=0.0)
    if rng.random() < 0.25:
        cd = G.add_blackboxes(rng, cd, rng.choice([1, 1, 2, 3]), bbdefs=[{"name": "leaf", "inputs": ["p"], "outputs": ["o"]}], prefix="s")
    return cd


def gen(rng, ctx):
    big = ctx.tier == "thorough"
    ni = rng.randint(1, 4)
    parent = G.rand_circuit(rng, ni, rng.randint(2, 7 if not big else 10), max_fanin=3, name="par", p_const=0.1)
    # hole buffers: undriven bufs feeding parent logic or marked as outputs
    tps = G.cd_types(parent)
    multi = [n for n, t, _ in parent["nodes"] if t in G.GATESN]
    nh = rng.randint(2, 6)
    holes = []
    for h in range(nh):
        w = f"h{h}"
        isout = not multi or rng.random() < 0.4
        parent["nodes"].append([w, "buf", isout])
        if not isout:
            parent["edges"].append([w, rng.choice(multi)])
        holes.append(w)
    if rng.random() < 0.06:
        # an ordinary net with a dotted (flattened-hierarchy) name: not a pin of any instance, strip_blackboxes leaves it alone
        plain_gates = [n for n, t, _ in parent["nodes"] if t in G.ALL_GATES and not n.startswith("h")]
        if plain_gates:
            try:
                parent = G.cd_rename(parent, {rng.choice(plain_gates): rng.choice(["alu.sum", "top.n1", "sc0x.D"])})
            except ValueError:
                pass
    if rng.random() < 0.2:
        # tie-offs of every kind (a connection map must never land a child output on one of them)
        for j in range(rng.randint(1, 2)):
            parent["nodes"].append([f"tie{j}", rng.choice(["0", "1", "x"]), True])
    scan = False
    if rng.random() < 0.3:
        # an instance whose pin names contain each other (D/SD, Q/QN): ignore_pins given as a plain string
        parent = G.add_blackboxes(rng, parent, 1, bbdefs=[{"name": "sdff", "inputs": ["D", "SD", "SE", "CK"], "outputs": ["Q", "QN"]}], prefix="sc")
        scan = True
        if rng.random() < 0.3:
            # a state bit observed directly: the blackbox output PIN carries the output mark
            for x in parent["nodes"]:
                if x[0] == f"sc0.{rng.choice(['Q', 'QN'])}":
                    x[2] = True
    children = [gen_child(rng, i) for i in range(rng.randint(1, 2))]
    if rng.random() < 0.4:
        # a child with a feed-through port (input that is also an output); only usable with add_subcircuit
        ft = _gen_child(rng, len(children))
        ft["bbs"] = {}
        ft["nodes"] = [x for x in ft["nodes"] if "." not in x[0] and not x[0].endswith("_w")]
        keep = {x[0] for x in ft["nodes"]}
        ft["edges"] = [e for e in ft["edges"] if e[0] in keep and e[1] in keep]
        ins_ft = [x for x in ft["nodes"] if x[1] == "input"]
        rng.choice(ins_ft)[2] = True
        children.append(ft)
    bb_safe = [i for i, ch in enumerate(children) if not [n for n, t, o in ch["nodes"] if t == "input" and o] and all(any(e[1] == n for e in ch["edges"]) or t not in G.ALL_GATES for n, t, o in ch["nodes"])]
    inst_names = rng.sample(["I1", "I10", "I100", "J", "J2", "J20", "I2", "K"], 8)
    ops = []
    free_holes = list(holes)
    pending_bb = []  # (inst, child index)
    nodes_now = [n for n, _, _ in parent["nodes"]]
    nops = rng.randint(1, 5)
    inst_no = 0
    for _ in range(nops):
        kind = rng.choice(["sub", "sub", "bb", "fill", "fill"])
        if kind == "fill" and not pending_bb:
            kind = "bb"
        ci = rng.randrange(len(children))
        if kind == "bb" and ci not in bb_safe:
            ci = rng.choice(bb_safe)
        ch = children[ci]
        cins = [n for n, t, _ in ch["nodes"] if t == "input"]
        couts = [n for n in G.cd_outputs(ch) if n not in cins]
        drivers = [n for n in nodes_now if "." not in n and not n.startswith("h")] + [h for h in holes if h not in free_holes]
        if kind in ("sub", "bb"):
            name = inst_names[inst_no % len(inst_names)] + ("" if inst_no < len(inst_names) else f"x{inst_no}")
            inst_no += 1
            conns = {}
            p_conn = rng.choice([1.0, 1.0, 0.6])
            for i in cins:
                if rng.random() < p_conn and drivers:
                    conns[i] = rng.choice(drivers)
            for o in couts:
                if rng.random() < p_conn and free_holes:
                    conns[o] = free_holes.pop(rng.randrange(len(free_holes)))
            if kind == "sub" and cins and couts and rng.random() < 0.1:
                # a child input fed from an output of the SAME instance (the net exists only once the child is spliced in)
                conns[rng.choice(cins)] = f"{name}_{rng.choice(couts)}"
                fed_back = True
            else:
                fed_back = False
            if kind == "sub":
                ops.append({"op": "add_subcircuit", "child": ci, "name": name, "connections": conns})
                if fed_back:
                    ops[-1]["own_output_feeds_input"] = True
                if rng.random() < 0.15:
                    # io kept: child inputs stay primary inputs (nothing may drive them), child outputs stay marked
                    ops[-1]["strip_io"] = False
                    if rng.random() < 0.8:
                        for i in cins:
                            conns.pop(i, None)
                nodes_now += [f"{name}_{n}" for n, _, _ in ch["nodes"]]
            else:
                ops.append({"op": "add_blackbox", "child": ci, "name": name, "connections": conns})
                pending_bb.append((name, ci))
        else:
            name, ci = pending_bb.pop(rng.randrange(len(pending_bb)))
            ops.append({"op": "fill_blackbox", "child": ci, "name": name})
            nodes_now += [f"{name}_{n}" for n, _, _ in children[ci]["nodes"]]
    if rng.random() < 0.5:
        ign = rng.choice([None, None, "p", ["p", "o"], "a0", ["a1"]])
        if scan and rng.random() < 0.25:
            # the net feeding an ignored pin already carries the name that pin would have been given (sc0_CK -> sc0.CK):
            # legal, because an ignored pin is deleted, not renamed
            pin = rng.choice(["CK", "SE"])
            drv = [u for u, v in parent["edges"] if v == f"sc0.{pin}"]
            tp = G.cd_types(parent)
            if drv and "." not in drv[0] and tp[drv[0]] in G.ALL_GATES + ["input"] and f"sc0_{pin}" not in tp:
                ren = {drv[0]: f"sc0_{pin}"}
                parent = G.cd_rename(parent, ren)
                for op in ops:
                    if "connections" in op:
                        op["connections"] = {k: ren.get(v, v) for k, v in op["connections"].items()}
                ops.append({"op": "strip_blackboxes", "ignore_pins": rng.choice([pin, [pin], [pin, "QN"]])})
                return {"parent": parent, "children": children, "ops": ops, "via": rng.choice(["graph", "api"]), "probe_rejected": False, "ignored_pin_name_taken": True}
        if scan:
            ign = rng.choice(["SD", "QN", "CK", ["SD"], ["QN", "SE"], None, "D", ["D"], ["Q"], ["D", "Q"], ["E", "K"]])  # D/SD, Q/QN: an ignored name that is the tail of another pin name
        ops.append({"op": "strip_blackboxes", "ignore_pins": ign})
        if isinstance(ign, list) and rng.random() < 0.5:
            ops[-1]["ign_rep"] = rng.choice(["tuple", "set", "frozenset"])
    if rng.random() < 0.05 and not any(o["op"] in ("add_blackbox", "fill_blackbox") and o.get("name", "").startswith("zu") for o in ops):
        # two instances whose pins flatten to the same io name (zu.a_b and zu_a.b -> zu_a_b): no renaming keeps them
        # apart, strip_blackboxes has to refuse
        drv = [n for n, t, _ in parent["nodes"] if t in G.ALL_GATES + ["input"]]
        parent["bbs"]["zu"] = {"name": "cx", "inputs": ["a_b"], "outputs": []}
        parent["bbs"]["zu_a"] = {"name": "cy", "inputs": ["b"], "outputs": []}
        parent["nodes"] += [["zu.a_b", "bb_input", False], ["zu_a.b", "bb_input", False]]
        parent["edges"] += [[rng.choice(drv), "zu.a_b"], [rng.choice(drv), "zu_a.b"]]
        ops = [o for o in ops if o["op"] != "strip_blackboxes"] + [{"op": "strip_blackboxes", "ignore_pins": None}]
    return {"parent": parent, "children": children, "ops": ops, "via": rng.choice(["graph", "api"]), "probe_rejected": rng.random() < 0.25}


def func_check(ctx, what, before_net, after_net, spliced, rename=None):
    """spliced: list of (child_net, prefix). rename: pre-existing node -> new name."""
    if has_cycle(after_net.succs) or after_net.has_x():
        ctx.count("skipped:functional_cyclic")
        return
    free = after_net.free()
    if len(free) > 12:
        ctx.count("skipped:functional_too_many_free")
        return
    vals, k = sim.functions(after_net, free)
    ctx.count("functional_checks")
    for child, name in spliced:
        m = lambda n: f"{name}_{n}"
        fixed = {}
        for n in child.free():
            if m(n) not in vals:
                ctx.violation("spliced_node_missing", f"{what}: {m(n)!r} missing")
                return
            fixed[n] = vals[m(n)]
        cv, _ = sim.functions(child, [], fixed=fixed, k=k)
        for n in child.types:
            if m(n) not in vals:
                ctx.violation("spliced_node_missing", f"{what}: {m(n)!r} missing")
                return
            if vals[m(n)] != cv[n]:
                d = vals[m(n)] ^ cv[n]
                j = (d & -d).bit_length() - 1
                ctx.violation("spliced_function", f"{what}: {m(n)!r} = {sim.bit_at(vals[m(n)], j)} but {n!r} = {sim.bit_at(cv[n], j)} in the child under the attached values ({sim.index_valuation(free, j)})")
                return
    rename = rename or {}
    r = lambda n: rename.get(n, n)
    fixed = {}
    for n in before_net.free():
        if r(n) not in vals:
            ctx.violation("preexisting_node_missing", f"{what}: pre-existing node {n!r} disappeared")
            return
        fixed[n] = vals[r(n)]
    bv, _ = sim.functions(before_net, [], fixed=fixed, k=k)
    for n in before_net.types:
        if r(n) not in vals:
            ctx.violation("preexisting_node_missing", f"{what}: pre-existing node {n!r} disappeared")
            return
        if bv[n] != vals[r(n)]:
            ctx.violation("preexisting_function", f"{what}: pre-existing node {n!r} changed its function")
            return


def check(case, ctx):
    cg = ctx.cg
    c = G.build(cg, case["parent"], case["via"])
    kids = [G.build(cg, cd, "sparse" if (len(cd["nodes"]) + j) % 3 == 0 else "graph") for j, cd in enumerate(case["children"])]
    knets = [Net.of(k) for k in kids]
    kstates = [K.State.of_net(n) for n in knets]
    bbtypes = {}
    if len(case["ops"]) < 2:
        ctx.trivial()
    for step, op in enumerate(case["ops"]):
        before_net = Net.of(c)
        before = K.State.of_net(before_net)
        name = op.get("name")
        what = f"step {step}: {op['op']}({name or ''})"
        ctx.count(f"op:{op['op']}")
        if op["op"] == "strip_blackboxes":
            snap = snapshot(c)
            ign = op["ignore_pins"]
            exp, ren, drop = K.exp_strip_blackboxes(before, [ign] if isinstance(ign, str) else ign)
            clash = [v for k_, v in ren.items() if v in before.types]
            ign_arg = ign
            if op.get("ign_rep"):
                ign_arg = {"tuple": tuple, "set": set, "frozenset": frozenset}[op["ign_rep"]](ign)
                ctx.count(f"strip_ignore_pins_as:{op['ign_rep']}")
            ok, r = ctx.call(cg.tx.strip_blackboxes, c, ign_arg)
            dup = sorted({v for v in ren.values() if list(ren.values()).count(v) > 1})
            if dup:
                ctx.count("strip_with_colliding_flattened_names")
                if ok:
                    ctx.violation("strip_merged_colliding_pins", f"{what}: pins {sorted(k_ for k_, v in ren.items() if v in dup)} all become {dup}; the call returned a circuit in which they are one node")
                    return
                clash = clash or dup
            if not ok:
                if isinstance(r, ValueError) and clash:
                    ctx.reject("strip_name_clash")
                elif isinstance(r, TypeError) and op.get("ign_rep"):
                    ctx.reject("strip_ignore_pins_container_refused")
                else:
                    ctx.violation("strip_raised", f"{what} raised {r!r}\n{getattr(r, '_tb', '')}")
                return
            if snapshot(c) != snap:
                ctx.violation("strip_modified_argument", f"{what}: argument changed: {snapshot_diff(snap, snapshot(c))}")
            # editing the result must not reach the argument (also when there was nothing to strip)
            probe = cg.tx.strip_blackboxes(c, ign)
            probe.graph.add_node("zz_edit", type="buf", output=True)
            for n_ in list(probe.graph.nodes)[:1]:
                probe.graph.nodes[n_]["type"] = "zz_edited"
            ctx.count("strip_result_edit_probe")
            if snapshot(c) != snap:
                ctx.violation("strip_result_aliases_argument", f"{what}: editing the returned circuit changed the argument: {snapshot_diff(snap, snapshot(c))}")
                return
            after_net = Net.of(r)
            after = K.State.of_net(after_net)
            ctx.count("cmp:structural")
            if ign:
                ctx.count("strip_with_ignore")
            if case.get("ignored_pin_name_taken"):
                ctx.count("net_named_like_an_ignored_pin")
            if isinstance(ign, str) and any(p != ign and (p in ign) for _, bi, bo in before.bbs.values() for p in bi | bo):
                ctx.count("strip_str_ignore_with_substring_pins")
            if before.bbs:
                ctx.count("strip_with_blackboxes")
            d = exp.diff(after)
            if d:
                ctx.violation("strip_structure", f"{what}: {d}")
                return
            if drop:
                # removing pins may leave former loads undriven: compare only structure
                ctx.count("strip_dropped_pins")
            func_check(ctx, what, Net({n: t for n, t in before_net.types.items() if n not in drop}, {n: [p for p in ps if p not in drop] for n, ps in before_net.preds.items() if n not in drop}, before_net.outputs - drop), after_net, [], rename=ren)
            return
        ci = op["child"]
        kid, knet, kst = kids[ci], knets[ci], kstates[ci]
        ksnap = snapshot(kid)
        if op["op"] == "add_subcircuit":
            pure_outs = sorted(knet.outputs - knet.inputs())
            holes_now = sorted(n for n, t in before_net.types.items() if t == "buf" and not before_net.preds[n] and n.startswith("h"))
            if case.get("probe_rejected") and len(pure_outs) >= 2 and holes_now:
                # connections that are each legal alone but illegal together (two drivers for one buffer):
                # the call must be refused and must leave the parent as it was
                bad_conns = {pure_outs[0]: holes_now[0], pure_outs[1]: holes_now[0]}
                okp, rp = ctx.call(c.add_subcircuit, kid, name + "_probe", bad_conns)
                ctx.count("conflicting_connections_probe")
                pn = Net.of(c)
                if okp or not isinstance(rp, ValueError):
                    ctx.violation("conflicting_connections_accepted", f"{what}: two child outputs mapped onto {holes_now[0]!r} were accepted ({rp!r})")
                    return
                if pn.types != before_net.types or pn.edges() != before_net.edges() or pn.bbs != before_net.bbs:
                    ctx.violation("rejected_call_changed_parent", f"{what}: the refused add_subcircuit left nodes/edges behind: {sorted(set(pn.types) - set(before_net.types))[:4]}")
                    return
            ties = sorted(n for n, t in before_net.types.items() if t in ("0", "1", "x"))
            if case.get("probe_rejected") and pure_outs and ties:
                # a child output mapped onto a constant (0 / 1 / x): sources cannot be driven, the call must be refused
                tgt = ties[len(pure_outs) % len(ties)]
                okp, rp = ctx.call(c.add_subcircuit, kid, name + "_probe", {pure_outs[0]: tgt})
                ctx.count(f"output_onto_constant_probe:{before_net.types[tgt]}")
                pn = Net.of(c)
                if okp or not isinstance(rp, ValueError):
                    ctx.violation("driven_constant_accepted", f"{what}: child output {pure_outs[0]!r} mapped onto the `{before_net.types[tgt]}` node {tgt!r} was accepted ({rp!r})")
                    return
                if pn.types != before_net.types or pn.edges() != before_net.edges() or pn.bbs != before_net.bbs:
                    ctx.violation("rejected_call_changed_parent", f"{what}: the refused add_subcircuit left nodes/edges behind: {sorted(set(pn.types) - set(before_net.types))[:4]}")
                    return
            conns = dict(op["connections"])
            strip_io = op.get("strip_io", True)
            exp = K.exp_add_subcircuit(before, kst, name, conns, strip_io=strip_io)
            if strip_io:
                conns0 = {k_: (list(v_) if isinstance(v_, list) else v_) for k_, v_ in conns.items()} if isinstance(conns, dict) else conns
                ok, r = ctx.call(c.add_subcircuit, kid, name, conns)
                if isinstance(conns, dict) and conns != conns0:
                    ctx.violation("compose_modified_connections", f"add_subcircuit changed the caller's connections dict from {conns0} to {conns}")
                    return
            else:
                ok, r = ctx.call(c.add_subcircuit, kid, name, conns, strip_io=False)
                ctx.count("add_subcircuit_strip_io_false")
                if any(k_ in knet.inputs() for k_ in conns):
                    # a kept primary input cannot be driven: the call must be refused and leave the parent alone
                    ctx.count("strip_io_false_with_input_connection")
                    pn = Net.of(c)
                    if ok or not isinstance(r, ValueError):
                        ctx.violation("driven_input_accepted", f"{what}: strip_io=False with a connection onto a child input was accepted ({r!r})")
                    elif pn.types != before_net.types or pn.edges() != before_net.edges() or pn.bbs != before_net.bbs:
                        ctx.violation("rejected_call_changed_parent", f"{what}: the refused add_subcircuit left nodes/edges behind: {sorted(set(pn.types) - set(before_net.types))[:4]}")
                    return
            if op.get("own_output_feeds_input"):
                ctx.count("child_input_fed_from_own_output")
            if len(conns) < len(knet.inputs() | knet.outputs):
                ctx.count("partial_connections")
            if knet.bbs:
                ctx.count("child_with_nested_blackbox")
            if knet.inputs() & knet.outputs:
                ctx.count("child_with_feedthrough_port")
            spliced = [(knet, name)]
            rename = None
        elif op["op"] == "add_blackbox":
            ins, outs = sorted(knet.inputs()), sorted(knet.outputs)
            if case.get("probe_rejected") and ins:
                # a rejected composition call must leave every pre-existing node alone
                pin = f"{name}.{ins[0]}"
                src = sorted(n for n in c.nodes() if c.type(n) in G.ALL_GATES + ["input"])
                if pin not in c and src:
                    c.add(pin, "buf", fanin=src[0], output=True)
                    before_probe = Net.of(c)
                    bbp = cg.BlackBox(f"bb_child{ci}", ins, outs)
                    okp, rp = ctx.call(c.add_blackbox, bbp, name, dict(op["connections"]))
                    ctx.count("rejected_call_probe")
                    if okp or not isinstance(rp, ValueError):
                        ctx.violation("name_clash_accepted", f"{what}: instance pin name {pin!r} already used by a node, call gave {rp!r}")
                        return
                    pn = Net.of(c)
                    lost_nodes = [n for n in before_probe.types if pn.types.get(n) != before_probe.types[n] or (n in pn.outputs) != (n in before_probe.outputs)]
                    if lost_nodes or before_probe.edges() != pn.edges() or pn.bbs != before_probe.bbs:
                        ctx.violation("rejected_call_changed_parent", f"{what}: the rejected call changed pre-existing nodes/edges: nodes {lost_nodes[:4]} edges lost {sorted(before_probe.edges() - pn.edges())[:3]} added {sorted(pn.edges() - before_probe.edges())[:3]}")
                        return
                    c.remove(pin)
                    before_net = Net.of(c)
                    before = K.State.of_net(before_net)
            key = (ci,)
            if key not in bbtypes:
                bbtypes[key] = cg.BlackBox(f"bb_child{ci}", ins, outs)
            conns = dict(op["connections"])
            exp = K.exp_add_blackbox(before, (f"bb_child{ci}", frozenset(ins), frozenset(outs)), name, conns)
            ok, r = ctx.call(c.add_blackbox, bbtypes[key], name, conns)
            spliced = []
            rename = None
        else:
            if case.get("probe_rejected"):
                # a child with the blackbox's pin names but another input/output split must be refused
                bbname_, ins_, outs_ = before.bbs[name]
                if ins_ and outs_:
                    bad = cg.Circuit(name="swapped")
                    for pn_ in sorted(outs_):
                        bad.add(pn_, "input")
                    for pn_ in sorted(ins_):
                        bad.add(pn_, "buf", fanin=sorted(outs_)[0], output=True)
                    okp, rp = ctx.call(c.fill_blackbox, name, bad)
                    ctx.count("swapped_direction_fill_probe")
                    pn = Net.of(c)
                    if okp or not isinstance(rp, ValueError):
                        ctx.violation("mismatched_fill_accepted", f"{what}: a fill circuit with inputs {sorted(outs_)} / outputs {sorted(ins_)} was accepted for a blackbox with inputs {sorted(ins_)} / outputs {sorted(outs_)}")
                        return
                    if pn.types != before_net.types or pn.edges() != before_net.edges() or pn.bbs != before_net.bbs:
                        ctx.violation("rejected_call_changed_parent", f"{what}: the refused fill changed the parent")
                        return
            exp = K.exp_fill_blackbox(before, name, kst)
            ok, r = ctx.call(c.fill_blackbox, name, kid)
            spliced = [(knet, name)]
            bbname, ins, outs = before.bbs[name]
            rename = {f"{name}.{p}": f"{name}_{p}" for p in ins | outs}
            ctx.count("fill_after_other_calls" if step and case["ops"][step - 1].get("name") != name else "fill_immediately")
        if snapshot(kid) != ksnap:
            ctx.violation("child_modified", f"{what}: the child circuit changed: {snapshot_diff(ksnap, snapshot(kid))}")
        if not ok:
            ctx.violation("compose_raised", f"{what} raised {r!r} on a legal call\n{getattr(r, '_tb', '')}")
            return
        after_net = Net.of(c)
        after = K.State.of_net(after_net)
        ctx.count("cmp:structural")
        d = exp.diff(after)
        if d:
            ctx.violation("compose_structure", f"{what}: {d}")
            return
        if op["op"] != "add_blackbox" and op.get("strip_io", True):
            if after.inputs() != before.inputs():
                ctx.violation("parent_inputs_changed", f"{what}: parent inputs {sorted(before.inputs())} -> {sorted(after.inputs())}")
                return
            ren = rename or {}
            if {ren.get(n, n) for n in before.outputs} - set(ren.values()) != after.outputs - set(ren.values()):
                ctx.violation("parent_outputs_changed", f"{what}: parent outputs {sorted(before.outputs)} -> {sorted(after.outputs)}")
                return
        if op["op"] == "add_blackbox":
            func_check(ctx, what, before_net, after_net, [], None)
        elif op["op"] == "fill_blackbox":
            # before-net with the pins of the filled blackbox renamed: bb_input pins are buffers already;
            # bb_output pins were free and are now driven by the child's logic
            func_check(ctx, what, before_net, after_net, spliced, rename)
        else:
            func_check(ctx, what, before_net, after_net, spliced, None)
    insts = [op["name"] for op in case["ops"] if "name" in op]
    if any(a != b and b.startswith(a) for a in insts for b in insts):
        ctx.count("instance_name_is_prefix_of_another")
    # same child instantiated more than once?
    names = [op["child"] for op in case["ops"] if op["op"] in ("add_subcircuit", "fill_blackbox")]
    if len(names) != len(set(names)):
        ctx.count("same_child_instantiated_twice")


def gates(counters, table, tier):
    need = ["conflicting_connections_probe", "swapped_direction_fill_probe", "strip_result_edit_probe", "rejected_call_probe", "strip_str_ignore_with_substring_pins", "child_with_feedthrough_port", "instance_name_is_prefix_of_another", "op:add_subcircuit", "op:add_blackbox", "op:fill_blackbox", "op:strip_blackboxes", "partial_connections", "child_with_nested_blackbox", "fill_after_other_calls", "fill_immediately", "same_child_instantiated_twice", "strip_with_ignore", "strip_with_blackboxes", "functional_checks", "add_subcircuit_strip_io_false", "strip_ignore_pins_as:tuple", "strip_ignore_pins_as:set", "net_named_like_an_ignored_pin", "output_onto_constant_probe:x", "output_onto_constant_probe:0", "child_input_fed_from_own_output", "strip_with_colliding_flattened_names"]
    return [f"{k} seen {counters.get(k, 0)} times" for k in need if counters.get(k, 0) < 5]
