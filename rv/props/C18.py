"""C18 - acyclic_unroll removes cycles and preserves stable states."""
from rv.gen import circuits as G
from rv.oracle import sim
from rv.oracle.graphdefs import has_cycle, reach
from rv.oracle.sim import Net
from rv.props._util import own_lint

RULE = (
    "random blackbox-free circuits with 1..4 back edges (nested / overlapping cycles, several SCCs), SR-latch and inverter-ring templates "
    "spliced into random logic, all gate types, outputs that are inputs or constants, no self-loops, <=13 nodes (thorough 15); the result must be "
    "acyclic, well formed, have the same outputs and inputs = original inputs + one `c0_aux_in_<f>` per cut node f; ALL consistent valuations "
    "(stable states) of the original are enumerated bit-parallel over 2^|nodes| assignments and for each one, with the aux inputs set to the stable "
    "values of their nodes, every output must equal its stable value; rings of 550..900 gates (result deeper than the recursion limit) with stable states in closed form. non-trivial = cyclic with >=1 stable state; distinct = canonical circuit"
)
BUDGET = {
    "quick": {"workers": 16, "cases": 1200, "secs": 60, "min_cases": 9600},
    "thorough": {"workers": 16, "rounds": 4, "cases": 3200, "secs": 420, "min_cases": 102400},
}
SIBLINGS = True  # consecutive cases with identical structure and different gate types
ANCHORS = ["tx:acyclic_unroll"]


def gen_deep_ring(rng):
    """One loop through 550..900 gates (an enabling gate followed by buffers / inverters): the unrolled result is
    deeper than the interpreter's recursion limit.  Its stable states are known in closed form."""
    n = rng.randint(550, 900)
    cd = G.new_cdict("ring")
    cd["nodes"].append(["en", "input", False])
    cd["nodes"].append(["r0", rng.choice(["and", "nand", "or", "nor", "xor", "xnor"]), False])
    for i in range(1, n):
        cd["nodes"].append([f"r{i}", rng.choice(["buf", "buf", "not"]), i == n - 1 or rng.random() < 0.002])
        cd["edges"].append([f"r{i - 1}", f"r{i}"])
    cd["edges"] += [["en", "r0"], [f"r{n - 1}", "r0"]]
    return {"c": cd, "tmpl": "deep_ring", "repeat": False, "via": "graph"}


def ring_model(net):
    """(cons, pos, order) of a deep_ring circuit over the two variables (en, r0)."""
    order = ["en", "r0"]
    k = 2
    mask = (1 << (1 << k)) - 1
    pos = {"en": sim.var_bits(0, k), "r0": sim.var_bits(1, k)}
    n = len(net.types) - 1
    for i in range(1, n):
        v = pos[f"r{i - 1}"]
        pos[f"r{i}"] = v ^ mask if net.types[f"r{i}"] == "not" else v
    want = sim.gate_bits(net.types["r0"], [pos["en"], pos[f"r{n - 1}"]], mask)
    cons = (want ^ pos["r0"]) ^ mask
    return cons, pos, order


def gen(rng, ctx):
    big = ctx.tier == "thorough"
    if rng.random() < 0.002 or (ctx.gen_index == 1 and ctx.index < 5):
        return gen_deep_ring(rng)
    maxn = 15 if big else 13
    ni = rng.randint(1, 4)
    tmpl = rng.choice(["back", "back", "back", "latch", "ring", "two_scc", "dense", "dense"])
    ng = rng.randint(2, maxn - ni - (4 if tmpl not in ("back", "dense") else 1))
    if tmpl == "dense":
        ni = rng.randint(1, 2)
        ng = rng.randint(4, 9)
    cd = G.rand_circuit(rng, ni, ng, max_fanin=3, p_const=0.15, p_input_output=0.15, p_const_output=0.1, n_outputs=rng.randint(1, 3), allow_x=rng.random() < 0.25, gate_prefix=rng.choice(["g", "g", "g", "n", "x_", "a", "u", "_n", "i_", "aux_in_"]))
    nodes = [n for n, _, _ in cd["nodes"]]
    tps = G.cd_types(cd)
    multi = [n for n in nodes if tps[n] in G.GATESN]
    src = [n for n in nodes if tps[n] not in ("0", "1")]
    if tmpl == "latch":
        s, r = rng.choice(src), rng.choice(src)
        t = rng.choice(["nor", "nand"])
        cd["nodes"] += [["lq", t, rng.random() < 0.6], ["lqn", t, rng.random() < 0.3]]
        cd["edges"] += [[s, "lq"], ["lqn", "lq"], [r, "lqn"], ["lq", "lqn"]]
        if multi and rng.random() < 0.6:
            cd["edges"].append(["lq", rng.choice(multi)])
    elif tmpl == "ring":
        k = rng.randint(2, 4)
        en = rng.choice(src)
        names = [f"rg{i}" for i in range(k)]
        cd["nodes"].append([names[0], rng.choice(["nand", "nor", "xor", "and"]), rng.random() < 0.5])
        for i in range(1, k):
            cd["nodes"].append([names[i], rng.choice(["not", "buf", "not"]), rng.random() < 0.3])
        cd["edges"] += [[en, names[0]], [names[-1], names[0]]] + [[names[i - 1], names[i]] for i in range(1, k)]
        cd["nodes"][-1][2] = True
    elif tmpl == "two_scc":
        cd = G.add_cycles(rng, cd, 2)
        a = rng.choice(src)
        cd["nodes"] += [["s2a", rng.choice(G.GATESN), False], ["s2b", rng.choice(G.GATESN), True]]
        cd["edges"] += [[a, "s2a"], ["s2b", "s2a"], ["s2a", "s2b"], [rng.choice(src), "s2b"]]
    if tmpl == "dense":
        # many overlapping loops through few gates
        cd = G.add_cycles(rng, cd, rng.randint(3, 7))
    if tmpl in ("back", "latch", "ring") and (tmpl == "back" or rng.random() < 0.4):
        cd = G.add_cycles(rng, cd, rng.randint(1, 4 if big else 3))
    if rng.random() < 0.3:
        cd = G.shuffle_nodes(rng, cd)
    return {"c": cd, "tmpl": tmpl, "repeat": rng.random() < 0.2, "via": rng.choice(["graph", "graph", "sparse"])}


def check(case, ctx):
    cg = ctx.cg
    cd = case["c"]
    c = G.build(cg, cd, case.get("via", "graph"))
    net = Net.of(c)
    ctx.count(f"tmpl:{case['tmpl']}")
    ctx.count(f"via:{case.get('via', 'graph')}")
    cyc = has_cycle(net.succs)
    ctx.count("cyclic" if cyc else "acyclic")
    if case["tmpl"] == "deep_ring":
        cons, pos_model, order = ring_model(net)
    elif len(net.types) > 16:
        ctx.count("skipped:too_large")
        return
    else:
        cons, order = sim.consistent_set(net)
        pos_model = None
    nstable = sim.popcount(cons)
    if not cyc or not nstable:
        ctx.trivial()
    ctx.count("no_stable_state" if not nstable else "has_stable_state")
    k = len(order)
    if nstable > (1 << len(net.inputs())):
        ctx.count("multiple_stable_states_per_input")
    if any(o in net.inputs() for o in net.outputs):
        ctx.count("output_is_input")
    ok, r = ctx.call(cg.tx.acyclic_unroll, c)
    if case.get("repeat"):
        from rv.props._util import repeat_call

        ok, r = repeat_call(ctx, "acyclic_unroll", "acyclic_unroll", cg.tx.acyclic_unroll, (c,), {}, (ok, r))
    if not ok:
        ctx.violation("acyclic_unroll_raised", f"acyclic_unroll raised {r!r}\n{getattr(r, '_tb', '')}")
        return
    an = Net.of(r)
    ctx.count("cmp:acyclic_unroll")
    if has_cycle(an.succs):
        ctx.violation("still_cyclic", "result has a directed cycle")
        return
    probs = own_lint(an)
    okl, rl = ctx.call(cg.lint, r)
    und = [n for n, t in an.types.items() if t in sim.GATES and not an.preds[n]]
    if probs or not okl or und:
        ctx.violation("illformed", f"result not lint-clean: {probs[:3]} undriven={und[:3]} {rl if not okl else ''}")
        return
    if an.outputs != net.outputs:
        ctx.violation("outputs_changed", f"outputs {sorted(an.outputs)} != {sorted(net.outputs)}")
        return
    extra = an.inputs() - net.inputs()
    if net.inputs() - an.inputs():
        ctx.violation("inputs_lost", f"original inputs {sorted(net.inputs() - an.inputs())} missing")
        return
    aux = {}
    for a in extra:
        # the auxiliary input of feedback node f carries f's name (longest node name that is a suffix)
        cands = sorted((n for n in net.types if a.endswith(n) and a != n), key=len, reverse=True)
        f = cands[0] if cands else None
        if f is None or f not in net.types or f in aux.values():
            ctx.violation("aux_input_unidentified", f"extra input {a!r} is not the auxiliary input of a distinct circuit node")
            return
        if f not in reach(net.preds, [f]):
            ctx.violation("aux_input_for_node_outside_cycles", f"extra input {a!r} stands for {f!r} ({net.types[f]}), which lies on no cycle of the circuit")
            return
        aux[a] = f
    ctx.count(f"cut_nodes:{len(aux) if len(aux) < 4 else '4+'}")
    if cyc and not aux:
        ctx.violation("no_aux_input", "cyclic circuit unrolled without any auxiliary input")
        return
    pos = pos_model or {n: sim.var_bits(i, k) for i, n in enumerate(order)}
    fixed = {i: pos[i] for i in net.inputs()}
    for a, f in aux.items():
        fixed[a] = pos[f]
    for xn, t in an.types.items():
        if t == "x":
            # every copy of an unknown-value constant stands for the original one (an opaque source)
            cands = sorted((n for n in net.types if net.types[n] == "x" and xn.endswith(n)), key=len, reverse=True)
            if not cands:
                ctx.violation("x_constant_unidentified", f"`x` node {xn!r} of the result is not a copy of an `x` node of the circuit")
                return
            fixed[xn] = pos[cands[0]]
    if net.has_x():
        ctx.count("with_x_constant")
    try:
        av, _ = sim.functions(an, [], fixed=fixed, k=k)
    except ValueError as e:
        ctx.violation("not_simulable", f"result cannot be simulated: {e}")
        return
    ctx.count("stable_states_checked", nstable)
    for o in sorted(net.outputs):
        d = (av[o] ^ pos[o]) & cons
        if d:
            j = (d & -d).bit_length() - 1
            st = sim.index_valuation(order, j)
            ctx.violation("stable_state_not_preserved", f"stable state {st}: with aux inputs { {a: st[f] for a, f in aux.items()} } output {o!r} = {sim.bit_at(av[o], j)} instead of {int(st[o])}")
            return


def gates(counters, table, tier):
    need = ["tmpl:dense", "tmpl:back", "tmpl:latch", "tmpl:ring", "tmpl:two_scc", "cyclic", "has_stable_state", "no_stable_state", "multiple_stable_states_per_input", "cut_nodes:1", "cut_nodes:2", "output_is_input", "tmpl:deep_ring", "with_x_constant"]
    return [f"{k} seen {counters.get(k, 0)} times" for k in need if counters.get(k, 0) < 5]
