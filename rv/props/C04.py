"""C04 - miter output is 1 exactly when the compared circuits differ."""
import zlib

from rv.gen import circuits as G
from rv.oracle import sim
from rv.oracle.sim import Net

RULE = (
    "pairs of random lint-clean blackbox-free circuits: identical copy, equivalent-but-restructured (generator's own "
    "De Morgan / double negation / buffer / regroup rewrites), one-gate mutation, overlapping-io, self-miter (c1 omitted); "
    "startpoints/endpoints default or random subsets incl. a single endpoint; the `sat` function of the returned miter is "
    "computed for ALL valuations of its free signals and compared with OR_e(v0[e] != v1[e]) obtained by simulating the two "
    "ORIGINAL circuits separately; solve(miter,{sat:True}) is False iff that function is constant 0. "
    "non-trivial = >=2 free signals and a multi-input gate; distinct = canonical (c0,c1,startpoints,endpoints)"
)
BUDGET = {
    "quick": {"workers": 16, "cases": 600, "secs": 60, "min_cases": 4800},
    "thorough": {"workers": 16, "rounds": 4, "cases": 1800, "secs": 420, "min_cases": 57600},
}
SIBLINGS = True  # consecutive cases with identical structure and different gate types
ANCHORS = ["tx:miter", "circuit:Circuit.add_subcircuit"]


FLIP = {"and": "nand", "nand": "and", "or": "nor", "nor": "or", "xor": "xnor", "xnor": "xor", "buf": "not", "not": "buf"}


def gen_wide(rng):
    """Wide interfaces: 16..40 compared endpoints; every single-endpoint mutant of the circuit is mitered against it."""
    n = rng.choice([16, 17, 17, 18, 32, 33, 33, 34, rng.randint(17, 40), 65, 70, 129])
    c0 = G.rand_circuit(rng, rng.randint(3, 5), n + rng.randint(0, 4), max_fanin=3, name="ca", p_const=0.1, n_outputs=n, p_large=0, p_input_output=0.0, p_const_output=0.0)
    return {"c0": c0, "c1": None, "pair": "wide_each", "startpoints": None, "endpoints": None, "as_set": rng.random() < 0.5, "repeat": False}


def gen(rng, ctx):
    big = ctx.tier == "thorough"
    if rng.random() < 0.02:
        return gen_wide(rng)
    ni = rng.randint(1, 5 if not big else 6)
    ng = rng.randint(1, 8 if not big else 12)
    c0 = G.rand_circuit(rng, ni, ng, max_fanin=4, name="ca", p_const=0.15, n_outputs=rng.randint(1, 3))
    pk = rng.choice(["copy", "equiv", "equiv", "mutant", "mutant", "overlap", "self", "role_overlap"])
    if pk == "copy":
        c1 = {**c0, "name": "cb"}
    elif pk == "equiv":
        c1 = G.rewrite_equiv(rng, c0, rng.randint(1, 4))
        c1["name"] = "cb"
    elif pk == "mutant":
        c1, _ = G.mutate_gate(rng, G.rewrite_equiv(rng, c0, rng.randint(0, 2)))
        c1["name"] = "cb"
    elif pk == "overlap":
        c1 = G.rand_circuit(rng, max(1, ni + rng.randint(-1, 1)), rng.randint(1, 8), max_fanin=4, name="cb", n_outputs=rng.randint(1, 3))
    elif pk == "role_overlap":
        # the same name is a primary input in one circuit and an internal gate in the other
        c1 = G.rewrite_equiv(rng, c0, rng.randint(0, 2))
        c1["name"] = "cb"
        ins0 = [n for n, t, _ in c0["nodes"] if t == "input"]
        gates1 = [n for n, t, _ in c1["nodes"] if t in G.ALL_GATES and not any(n == x[0] for x in c0["nodes"])]
        victim_in = rng.choice(ins0)
        try:
            if gates1 and rng.random() < 0.5:
                # c1: the input keeps another name, a helper gate takes the input's name
                c1 = G.cd_rename(c1, {victim_in: victim_in + "_alt"})
                c1 = G.cd_rename(c1, {rng.choice(gates1): victim_in})
            else:
                gts = [n for n, t, _ in c1["nodes"] if t in G.GATESN]
                if gts:
                    c1 = G.cd_rename(c1, {victim_in: victim_in + "_alt"})
                    c1 = G.cd_rename(c1, {rng.choice(gts): victim_in})
        except ValueError:
            pass
    else:
        c1 = None
    if rng.random() < 0.06:
        # names that resemble the miter's own nodes
        victim = rng.choice([n for n, _, _ in c0["nodes"]])
        other = rng.choice([n for n, _, _ in c0["nodes"]])
        new = rng.choice(["sat", f"dif_{other}", f"c0_{other}", f"c1_{other}"])
        try:
            c0 = G.cd_rename(c0, {victim: new})
            if pk == "copy":
                c1 = {**c0, "name": "cb"}
        except ValueError:
            pass
    cc1 = c1 if c1 is not None else c0
    sp0 = {n for n, t, _ in c0["nodes"] if t == "input"}
    sp1 = {n for n, t, _ in cc1["nodes"] if t == "input"}
    ep0, ep1 = set(G.cd_outputs(c0)), set(G.cd_outputs(cc1))
    shared_sp, shared_ep = sorted(sp0 & sp1), sorted(ep0 & ep1)
    sps = None
    if shared_sp and rng.random() < 0.4:
        sps = rng.sample(shared_sp, rng.randint(1, len(shared_sp)))
    eps = None
    if shared_ep and rng.random() < 0.5:
        eps = rng.sample(shared_ep, 1 if rng.random() < 0.5 else rng.randint(1, len(shared_ep)))
        if rng.random() < 0.3:
            # "nodes to compare, must exist in both circuits": a compared node need not be an output
            t0, t1 = G.cd_types(c0), G.cd_types(cc1)
            inner = sorted(n for n in t0 if n in t1 and t0[n] in G.ALL_GATES and t1[n] in G.ALL_GATES and n not in eps)
            if inner:
                eps = eps + [rng.choice(inner)]
    if rng.random() < 0.3:
        c0 = G.shuffle_nodes(rng, c0)
        if pk == "copy":
            c1 = {**c0, "name": "cb"}
    case = {"c0": c0, "c1": c1, "pair": pk, "startpoints": sps, "endpoints": eps, "as_set": rng.random() < 0.5, "repeat": rng.random() < 0.2}
    r = rng.random()
    if r < 0.05 and sps is None:
        case["empty_startpoints"] = True  # the empty subset, given explicitly: nothing is tied
    elif r < 0.08 and eps is None:
        case["empty_endpoints"] = True  # nothing is compared: sat is constantly 0
    elif r < 0.11 and eps is None:
        # no output anywhere (all endpoints are unmarked): the default selection is empty
        for cd_ in (c0, c1):
            if cd_ is not None:
                cd_["nodes"] = [[n, t, False] for n, t, _ in cd_["nodes"]]
        case["no_outputs"] = True
    return case


def check(case, ctx):
    if case["pair"] != "wide_each":
        return check_pair(case, ctx, case["c0"], case["c1"])
    c0d = case["c0"]
    succ = G.cd_succs(c0d)
    sinks = sorted(n for n, t, o in c0d["nodes"] if o and not succ.get(n) and t in FLIP)
    ctx.count("wide_each:endpoints", len(G.cd_outputs(c0d)))
    if len(G.cd_outputs(c0d)) % 16 == 1:
        ctx.count("wide_each:count_1_mod_16")
    for e in sinks[:40]:
        c1d = {**c0d, "name": "cb", "nodes": [[n, FLIP[t] if n == e else t, o] for n, t, o in c0d["nodes"]]}
        nv = len(ctx.violations)
        check_pair(case, ctx, c0d, c1d)
        ctx.count("wide_each:mutants")
        if len(ctx.violations) > nv:
            ctx.violations[-1]["detail"] += f" [second circuit = first with endpoint {e} inverted]"
            return


def check_pair(case, ctx, c0d, c1d):
    cg = ctx.cg
    c0 = G.build(cg, c0d, "graph")
    c1 = G.build(cg, c1d, "graph") if c1d is not None else None
    n0 = Net.of(c0)
    n1 = Net.of(c1) if c1 is not None else n0
    ctx.count(f"pair:{case['pair']}")
    sp0, sp1 = n0.inputs(), n1.inputs()
    tied = set(case["startpoints"]) if case["startpoints"] else (sp0 & sp1)
    eps = set(case["endpoints"]) if case["endpoints"] else (n0.outputs & n1.outputs)
    if case.get("empty_startpoints"):
        tied = set()
        ctx.count("explicit_empty_startpoints")
    if case.get("empty_endpoints"):
        eps = set()
        ctx.count("explicit_empty_endpoints")
    if not eps:
        # nothing to compare: the miter exists, its sat output is constantly 0 and solve(sat=1) is False
        ctx.count("no_compared_endpoint")
    form = zlib.crc32(repr((sorted(case["startpoints"] or []), sorted(case["endpoints"] or []))).encode()) % 8
    if form == 0:
        conv = lambda x: (y for y in list(x))  # noqa: E731  one-shot generator
    elif form == 1:
        conv = lambda x: iter(list(x))  # noqa: E731
    elif form == 2:
        conv = lambda x: tuple(x)  # noqa: E731
    elif form == 3:
        conv = lambda x: dict.fromkeys(x).keys()  # noqa: E731
    elif form == 4:
        conv = lambda x: frozenset(x)  # noqa: E731
    else:
        conv = (lambda x: set(x)) if case["as_set"] else (lambda x: list(x))
    if case["startpoints"] or case["endpoints"]:
        ctx.count(f"node_sets_as:{('generator', 'iterator', 'tuple', 'dict_keys', 'frozenset')[form] if form < 5 else ('set' if case['as_set'] else 'list')}")
    sarg = conv(case["startpoints"]) if case["startpoints"] else None
    empties = [set(), [], (), frozenset()]
    if case.get("empty_startpoints"):
        sarg = empties[len(c0d["nodes"]) % 4]
    # endpoints are measured with len() by the documented code ("set of str"): sized collections only
    earg = (conv if form >= 2 else list)(case["endpoints"]) if case["endpoints"] else None
    if case.get("empty_endpoints"):
        earg = empties[len(c0d["edges"]) % 4]
    ok, m = ctx.call(cg.tx.miter, c0, c1, sarg, earg)
    if case.get("repeat") and form >= 2:
        from rv.props._util import repeat_call

        ok, m = repeat_call(ctx, "miter", "miter", cg.tx.miter, (c0, c1, sarg, earg), {}, (ok, m))
    if not ok:
        if isinstance(m, ValueError) and ("already" in str(m) or "overlap" in str(m)):
            # a node of the arguments carries a name the miter needs for itself (sat, dif_<e>, c0_<n>, ...)
            ctx.reject("miter_name_clash")
            return
        ctx.violation("miter_raised", f"miter raised {m!r}\n{getattr(m, '_tb', '')}")
        return
    mn = Net.of(m)
    ctx.count("cmp:miter")
    if len(eps) == 1:
        ctx.count("single_endpoint")
    if case["startpoints"]:
        ctx.count("explicit_startpoints")
    if case["endpoints"] and not set(case["endpoints"]) <= (n0.outputs & n1.outputs):
        ctx.count("endpoint_that_is_not_an_output")
    untied = (sp0 | sp1) - tied
    if untied:
        ctx.count("untied_startpoints")
    if mn.inputs() != tied:
        ctx.violation("miter_inputs", f"miter inputs {sorted(mn.inputs())} != tied startpoints {sorted(tied)}")
        return
    if "sat" not in mn.types or mn.outputs != {"sat"}:
        ctx.violation("miter_outputs", f"miter outputs are {sorted(mn.outputs)}")
        return
    free = mn.free()
    if len(free) > 14:
        ctx.count("skipped:too_many_free")
        return
    expect_free = set(tied) | {f"c0_{n}" for n in sp0 - tied} | {f"c1_{n}" for n in sp1 - tied}
    if set(free) != expect_free:
        ctx.violation("miter_free_signals", f"free signals of the miter are {sorted(free)}, expected {sorted(expect_free)}")
        return
    if len(free) < 2 or not any(t in G.GATESN and len(n0.preds[n]) > 1 for n, t in n0.types.items()):
        ctx.trivial()
    try:
        mv, k = sim.functions(mn, free)
    except ValueError as e:
        ctx.violation("miter_not_simulable", f"miter cannot be simulated: {e}")
        return
    mask = (1 << (1 << k)) - 1
    pos = {n: sim.var_bits(i, k) for i, n in enumerate(free)}
    f0 = {n: (pos[n] if n in tied else pos[f"c0_{n}"]) for n in sp0}
    f1 = {n: (pos[n] if n in tied else pos[f"c1_{n}"]) for n in sp1}
    v0, _ = sim.functions(n0, [], fixed=f0, k=k)
    v1, _ = sim.functions(n1, [], fixed=f1, k=k)
    want = 0
    for e in eps:
        want |= v0[e] ^ v1[e]
    ctx.count("differ" if want else "agree")
    if mv["sat"] != want:
        d = mv["sat"] ^ want
        j = (d & -d).bit_length() - 1
        ctx.violation("miter_sat_function", f"under {sim.index_valuation(free, j)} sat={sim.bit_at(mv['sat'], j)} but the circuits {'differ' if sim.bit_at(want, j) else 'agree'} on {sorted(eps)}")
        return
    ok, res = ctx.call(cg.sat.solve, m, {"sat": True})
    ctx.count("cmp:solve_miter")
    if not ok:
        ctx.violation("solve_raised", f"solve(miter) raised {res!r}\n{getattr(res, '_tb', '')}")
    elif (res is False) != (want == 0):
        ctx.violation("miter_solve", f"solve(miter,{{sat:True}}) returned {'False' if res is False else 'a model'} but the circuits {'agree everywhere' if want == 0 else 'differ'}")
    elif res is not False:
        j = sim.valuation_index(free, res)
        if not sim.bit_at(want, j):
            ctx.violation("miter_solve_model", f"model returned for sat=1 does not distinguish the circuits: { {n: res[n] for n in free} }")


def gates(counters, table, tier):
    need = ["endpoint_that_is_not_an_output", "pair:wide_each", "wide_each:count_1_mod_16", "pair:role_overlap", "pair:copy", "pair:equiv", "pair:mutant", "pair:overlap", "pair:self", "single_endpoint", "untied_startpoints", "explicit_startpoints", "explicit_empty_startpoints", "explicit_empty_endpoints", "no_compared_endpoint", "agree", "differ"]
    return [f"{k} seen {counters.get(k, 0)} times" for k in need if counters.get(k, 0) < 10]
