"""C19 - transforms, queries and writers never modify or alias their argument."""
import inspect
import os
import shutil
import tempfile

from rv.gen import circuits as G
from rv.monitor import mutable_ids, snapshot, snapshot_diff

RULE = (
    "every public function of tx, props, sat, the io writers, utils.lint/visualize and every read-only Circuit method - enumerated by introspection, a function "
    "the workload does not drive makes the run inconclusive - is called on random circuits (plain, with flip-flop blackboxes, cyclic, with constants) with valid "
    "arguments and with hostile ones that make it raise (missing nodes, blackboxes where none are allowed, k<2, n<1, bad state_io, unknown fmt, missing external tools); "
    "a deep order-independent snapshot of every Circuit argument is compared before/after (return or raise); every Circuit reachable from the result is checked for "
    "shared containers (graph, _node/_adj/_pred, attribute dicts, registry) by identity and by scripted edits of result and argument in both directions. "
    "non-trivial = the call reached the function body; distinct = (function, variant, canonical circuit, parameters)"
)
BUDGET = {
    "quick": {"workers": 16, "cases": 1000, "secs": 60, "min_cases": 8000},
    "thorough": {"workers": 16, "rounds": 4, "cases": 2600, "secs": 420, "min_cases": 83200},
}
ANCHORS = ["tx:strip_io", "circuit:Circuit.copy", "io:circuit_to_verilog", "tx:sensitization_transform", "tx:limit_fanin", "tx:limit_fanout", "tx:acyclic_unroll", "tx:insert_registers"]

MUTATORS = {"set_type", "add_subcircuit", "add_blackbox", "fill_blackbox", "add", "remove", "relabel", "connect", "disconnect", "set_output", "remove_unloaded"}

# name -> builder(c, c2, P) -> (args, kwargs); P: dict of parameters of the case
FUNCS = {
    "tx.strip_io": lambda c, c2, P: ((c,), {}),
    "tx.strip_outputs": lambda c, c2, P: ((c,), {}),
    "tx.strip_inputs": lambda c, c2, P: ((c,), {}),
    "tx.strip_blackboxes": lambda c, c2, P: ((c,), {"ignore_pins": P["ignore"]}),
    "tx.relabel": lambda c, c2, P: ((c, {P["n"]: "zz_renamed"}), {}),
    "tx.subcircuit": lambda c, c2, P: ((c, P["nodes"]), {"modify_io": P["flag"]}),
    "tx.syn": lambda c, c2, P: ((c,), {"engine": P["engine"], "suppress_output": True}),
    "tx.aig": lambda c, c2, P: ((c,), {}),
    "tx.ternary": lambda c, c2, P: ((c,), {}),
    "tx.miter": lambda c, c2, P: ((c, c2 if P["flag"] else None), {}),
    "tx.sequential_unroll": lambda c, c2, P: ((c, P["n_unroll"], P["dport"], P["qport"]), {"ignore_pins": P["ignore"], "add_flop_outputs": P["flag"], "initial_values": P["iv"]}),
    "tx.unroll": lambda c, c2, P: ((c, P["n_unroll"], P["state_io"]), {}),
    "tx.sensitization_transform": lambda c, c2, P: ((c, P["n"]), {"endpoints": P["endpoints"]}),
    "tx.sensitivity_transform": lambda c, c2, P: ((c, P["n"]), {}),
    "tx.limit_fanin": lambda c, c2, P: ((c, P["k"]), {}),
    "tx.limit_fanout": lambda c, c2, P: ((c, P["k"]), {}),
    "tx.acyclic_unroll": lambda c, c2, P: ((c,), {}),
    "tx.supergates": lambda c, c2, P: ((c,), {"construct_supercircuit": P["flag"]}),
    "tx.insert_registers": lambda c, c2, P: ((c, P["k"]), {}),
    "props.influence": lambda c, c2, P: ((c, P["n"]), {"approx": P["flag"]}),
    "props.avg_sensitivity": lambda c, c2, P: ((c, P["n"]), {"approx": False, "supergates": P["flag"]}),
    "props.sensitivity": lambda c, c2, P: ((c, P["n"]), {}),
    "props.sensitize": lambda c, c2, P: ((c, P["n"]), {"assumptions": P["assume"]}),
    "props.signal_probability": lambda c, c2, P: ((c, P["n"]), {"approx": P["flag"]}),
    "props.levelize": lambda c, c2, P: ((c,), {}),
    "sat.construct_solver": lambda c, c2, P: ((c, P["assume"]), {}),
    "sat.cnf": lambda c, c2, P: ((c,), {}),
    "sat.solve": lambda c, c2, P: ((c, P["assume"]), {}),
    "sat.approx_model_count": lambda c, c2, P: ((c, P["assume"]), {"use_xor_clauses": P["flag"]}),
    "sat.model_count": lambda c, c2, P: ((c, P["assume"]), {}),
    "io.to_file": lambda c, c2, P: ((c, P["path"]), {"fmt": P["fmt"], "behavioral": P["flag"]}),
    "io.circuit_to_verilog": lambda c, c2, P: ((c,), {"behavioral": P["flag"]}),
    "io.circuit_to_bench": lambda c, c2, P: ((c,), {}),
    "utils.lint": lambda c, c2, P: ((c,), {"fail_fast": P["flag"], "unloaded": P["flag2"], "single_input_gates": P["flag2"]}),
    "utils.visualize": lambda c, c2, P: ((c, P["path"] + ".png"), {}),
    # read-only Circuit methods
    "Circuit.copy": lambda c, c2, P: ((c,), {}),
    "Circuit.type": lambda c, c2, P: ((c, P["n"] if P["flag"] else P["nodes"]), {}),
    "Circuit.filter_type": lambda c, c2, P: ((c, P["types"]), {}),
    "Circuit.nodes": lambda c, c2, P: ((c,), {}),
    "Circuit.edges": lambda c, c2, P: ((c,), {}),
    "Circuit.fanin": lambda c, c2, P: ((c, P["n"] if P["flag"] else P["nodes"]), {}),
    "Circuit.fanout": lambda c, c2, P: ((c, P["n"] if P["flag"] else P["nodes"]), {}),
    "Circuit.transitive_fanin": lambda c, c2, P: ((c, P["n"] if P["flag"] else P["nodes"]), {}),
    "Circuit.transitive_fanout": lambda c, c2, P: ((c, P["n"] if P["flag"] else P["nodes"]), {}),
    "Circuit.fanout_depth": lambda c, c2, P: ((c, P["n"] if P["flag"] else P["nodes"]), {"maximum": P["flag2"]}),
    "Circuit.fanin_depth": lambda c, c2, P: ((c, P["n"] if P["flag"] else P["nodes"]), {"maximum": P["flag2"]}),
    "Circuit.paths": lambda c, c2, P: ((c, P["n"], P["n2"]), {}),
    "Circuit.inputs": lambda c, c2, P: ((c,), {}),
    "Circuit.is_output": lambda c, c2, P: ((c, P["n"]), {}),
    "Circuit.outputs": lambda c, c2, P: ((c,), {}),
    "Circuit.io": lambda c, c2, P: ((c,), {}),
    "Circuit.startpoints": lambda c, c2, P: ((c, P["n"] if P["flag"] else None), {}),
    "Circuit.endpoints": lambda c, c2, P: ((c, P["n"] if P["flag"] else None), {}),
    "Circuit.reconvergent_fanout_nodes": lambda c, c2, P: ((c,), {}),
    "Circuit.has_reconvergent_fanout": lambda c, c2, P: ((c,), {}),
    "Circuit.is_cyclic": lambda c, c2, P: ((c,), {}),
    "Circuit.uid": lambda c, c2, P: ((c, P["n"]), {"blocked": P["nodes"] if P["flag"] else None}),
    "Circuit.kcuts": lambda c, c2, P: ((c, P["n"], P["k"]), {}),
    "Circuit.topo_sort": lambda c, c2, P: ((c,), {}),
    "Circuit.__contains__": lambda c, c2, P: ((c, P["n"]), {}),
    "Circuit.__len__": lambda c, c2, P: ((c,), {}),
    "Circuit.__iter__": lambda c, c2, P: ((c,), {}),
}
# functions of the scanned modules that take no circuit (nothing to protect) or are not functions of the library
NOT_APPLICABLE = {"sat.add_assumptions", "sat.remap", "utils.clog2", "utils.int_to_bin", "utils.bin_to_int", "io.from_file", "io.from_lib", "io.bench_to_circuit", "io.verilog_to_circuit", "utils.circuit_to_verilog"}


def enumerate_public(cg):
    """Public callables the property speaks about, by introspection of the tree under test."""
    names = set()
    for modname in ("tx", "props", "sat"):
        mod = getattr(cg, modname)
        for k, v in vars(mod).items():
            if inspect.isfunction(v) and not k.startswith("_") and v.__module__ == mod.__name__:
                names.add(f"{modname}.{k}")
    for k in ("to_file", "circuit_to_verilog", "circuit_to_bench"):
        names.add(f"io.{k}")
    for k, v in vars(cg.io).items():
        if inspect.isfunction(v) and not k.startswith("_") and v.__module__ == cg.io.__name__ and ("to_" in k and k.split("_to_")[0] == "circuit" or k == "to_file"):
            names.add(f"io.{k}")
    names |= {"utils.lint", "utils.visualize"}
    for k, v in vars(cg.Circuit).items():
        if inspect.isfunction(v) and (not k.startswith("_") or k in ("__contains__", "__len__", "__iter__")) and k not in MUTATORS:
            names.add(f"Circuit.{k}")
    return names - NOT_APPLICABLE


def setup(ctx):
    ctx.scratch = tempfile.mkdtemp(prefix="verif-c19-")
    ctx.logdir = tempfile.mkdtemp(prefix="verif-c19-amc-")
    os.environ["VERIF_APPROXMC_LOG"] = ctx.logdir
    ctx.public = sorted(enumerate_public(ctx.cg))
    ctx.fn_cycle = 0
    for n in ctx.public:
        if n not in FUNCS:
            ctx.count(f"undriven:{n}")


def teardown(ctx):
    shutil.rmtree(ctx.scratch, ignore_errors=True)
    shutil.rmtree(ctx.logdir, ignore_errors=True)


def gen(rng, ctx):
    fns = [f for f in ctx.public if f in FUNCS]
    fn = fns[(ctx.gen_index + ctx.index * 7) % len(fns)]
    variant = rng.choice(["ok", "ok", "hostile"])
    cls = rng.choice(["plain", "plain", "flops", "cyclic", "bb"])
    seqfn = fn in ("tx.sequential_unroll",)
    if seqfn and variant == "ok":
        cls = "flops"
    if fn in ("tx.ternary", "tx.miter", "tx.unroll", "tx.sensitization_transform", "tx.sensitivity_transform", "tx.supergates", "tx.acyclic_unroll", "props.influence", "props.avg_sensitivity", "props.sensitivity", "props.sensitize", "props.signal_probability", "io.circuit_to_bench", "tx.insert_registers") and variant == "ok":
        cls = rng.choice(["plain", "plain", "cyclic"]) if fn == "tx.acyclic_unroll" else "plain"
    ni = rng.randint(1, 4)
    cd = G.rand_circuit(rng, ni, rng.randint(1, 7), max_fanin=4, p_const=0.2, p_input_output=0.05)
    if cls in ("flops", "bb"):
        cd = G.add_blackboxes(rng, cd, rng.randint(1, 3), bbdefs=[{"name": "ff", "inputs": ["clk", "d"], "outputs": ["q"]}, {"name": "ff", "inputs": ["clk", "d"], "outputs": ["q"]}, {"name": "ffn", "inputs": ["clk", "d", "rn"], "outputs": ["q", "qn"]}] if cls == "flops" else None, p_unconnected=0.0 if cls == "flops" else 0.2)
    if cls == "cyclic":
        cd = G.add_cycles(rng, cd, rng.randint(1, 2))
    if rng.random() < 0.12:
        # escaped identifiers (the writers treat them specially)
        plain = [n for n, _, _ in cd["nodes"] if "." not in n]
        try:
            cd = G.cd_rename(cd, {v: "\\" + v + rng.choice(["[0]", "-1", ""]) for v in rng.sample(plain, min(len(plain), rng.randint(1, 2)))})
            cls += "+escaped"
        except ValueError:
            pass
    c2 = G.rewrite_equiv(rng, cd, 2) if rng.random() < 0.5 else G.rand_circuit(rng, ni, rng.randint(1, 5), max_fanin=3)
    nodes = [n for n, _, _ in cd["nodes"]]
    tps = G.cd_types(cd)
    ins = [n for n in nodes if tps[n] == "input"]
    outs = [n for n in G.cd_outputs(cd) if n not in ins]
    hostile = variant == "hostile"
    P = {
        "n": "no_such_node" if hostile and rng.random() < 0.5 else rng.choice(nodes),
        "n2": rng.choice(nodes),
        "nodes": rng.sample(nodes, rng.randint(1, min(4, len(nodes)))) + (["ghost_node"] if hostile and rng.random() < 0.4 else []),
        "k": rng.choice([0, 1, -1]) if hostile and rng.random() < 0.6 else rng.randint(2, 4),
        "flag": rng.random() < 0.5,
        "flag2": rng.random() < 0.5,
        "ignore": rng.choice([None, "clk", ["clk", "q"], "p"]),
        "engine": rng.choice(["yosys", "genus", "dc", "nosuch"]),
        "n_unroll": rng.choice([0, -1]) if hostile and rng.random() < 0.5 else rng.randint(1, 3),
        "dport": "nod" if hostile and rng.random() < 0.4 else "d",
        "qport": "noq" if hostile and rng.random() < 0.4 else "q",
        "iv": rng.choice([None, "0", "1", "x"]),
        "state_io": ({outs[0]: ins[0]} if outs and ins and rng.random() < 0.7 else {}) if not hostile else {"ghost": "i0"},
        "endpoints": rng.choice([None, None, outs[:1] or None, "no_such_endpoint" if hostile else None]),
        "assume": rng.choice([None, {rng.choice(nodes): rng.random() < 0.5}, {"ghost_node": True} if hostile else None]),
        "fmt": "nosuchfmt" if hostile and rng.random() < 0.5 else rng.choice(["verilog", "bench"]),
        "types": rng.choice(["and", ["input", "buf"], "nosuchtype" if hostile else "xor"]),
    }
    return {"fn": fn, "variant": variant, "cls": cls, "c": cd, "c2": c2, "P": P, "sparse": rng.random() < 0.3}


def circuits_in(obj, depth=0, out=None):
    out = out if out is not None else []
    if depth > 3:
        return out
    if hasattr(obj, "graph") and hasattr(obj, "blackboxes"):
        out.append(obj)
    elif isinstance(obj, dict):
        for v in obj.values():
            circuits_in(v, depth + 1, out)
    elif isinstance(obj, (list, tuple, set)):
        for v in obj:
            circuits_in(v, depth + 1, out)
    return out


def scripted_edit(cg, x):
    """Edit every mutable part of a Circuit through the raw containers."""
    g = x.graph
    first = next(iter(g.nodes), None)
    g.add_node("zz_edit_node", type="buf", output=True)
    if first is not None:
        g.add_edge("zz_edit_node", first)
        g.nodes[first]["type"] = "zz_edited_type"
        g.nodes[first]["output"] = not g.nodes[first].get("output")
        g.nodes[first]["zz_attr"] = 1
        for u, v in list(g.edges)[:1]:
            g.edges[u, v]["zz_edge_attr"] = 1
        succ = list(g.successors(first))
        if len(g) > 2:
            last = list(g.nodes)[-2]
            if last != first:
                g.remove_node(last)
    x.blackboxes["zz_inst"] = cg.BlackBox("zz", ["a"], ["b"])
    for k in list(x.blackboxes)[:1]:
        if k != "zz_inst":
            x.blackboxes.pop(k)
    g.graph["zz_graph_attr"] = 1
    x.name = str(x.name) + "_edited"


def check(case, ctx):
    cg = ctx.cg
    fn = case["fn"]
    via = "sparse" if case.get("sparse") else "graph"
    c = G.build(cg, case["c"], via)
    c2 = G.build(cg, case["c2"], via)
    if case.get("sparse"):
        ctx.count("sparse_attributes")
    P = dict(case["P"])
    P["path"] = os.path.join(ctx.scratch, f"f{ctx.gen_index if hasattr(ctx, 'gen_index') else 0}.{'bench' if P['fmt'] == 'bench' else 'v'}")
    modname, attr = fn.split(".", 1)
    if modname == "Circuit":
        f = getattr(cg.Circuit, attr)
    else:
        f = getattr(getattr(cg, modname), attr)
    args, kwargs = FUNCS[fn](c, c2, P)
    arg_circuits = [a for a in args if hasattr(a, "graph") and hasattr(a, "blackboxes")]
    snaps = [snapshot(a) for a in arg_circuits]
    ids_before = [mutable_ids(a) for a in arg_circuits]

    def run():
        r = f(*args, **kwargs)
        if inspect.isgenerator(r) or fn in ("Circuit.topo_sort", "Circuit.paths", "Circuit.__iter__"):
            r = list(r)
        return r

    ok, r = ctx.call(run)
    ctx.count(f"fn:{fn}")
    ctx.count(f"outcome:{fn}:{'ok' if ok else 'raised'}")
    ctx.count(f"variant:{case['variant']}")
    for k_ in case["cls"].split("+"):
        ctx.count(f"class:{k_}")
    ctx.count("returned" if ok else "raised")
    what = f"{fn}(<{case['cls']} circuit>, ...) [{case['variant']}] -> {'returned' if ok else 'raised ' + repr(r)}"
    for a, s in zip(arg_circuits, snaps):
        s2 = snapshot(a)
        if s2 != s:
            ctx.violation("argument_modified", f"{what}: argument {'c' if a is c else 'c2'} changed: {snapshot_diff(s, s2)}", extra={"fn": fn})
            return
    ctx.count("snapshots_compared", len(arg_circuits))
    try:
        os.unlink(P["path"])
    except OSError:
        pass
    if not ok:
        return
    res = circuits_in(r)
    if any(x is a for x in res for a in arg_circuits):
        ctx.violation("result_is_argument", f"{what}: the returned circuit is the argument object itself", extra={"fn": fn})
        return
    res = [x for x in res if not any(x is a for a in arg_circuits)]
    if not res:
        return
    ctx.count("results_with_circuits")
    for x in res:
        ids_x = mutable_ids(x)
        for a, ida in zip(arg_circuits, ids_before):
            shared = set(ids_x) & set(mutable_ids(a))
            if shared:
                ctx.violation("result_aliases_argument", f"{what}: result shares {[ids_x[i] for i in list(shared)[:3]]} with the argument", extra={"fn": fn})
                return
    ctx.count("identity_checks", len(res))
    # dynamic: edit the results, arguments must not change
    res_snaps_before_arg_edit = None
    for x in res:
        scripted_edit(cg, x)
    for a, s in zip(arg_circuits, snaps):
        if snapshot(a) != s:
            ctx.violation("editing_result_changed_argument", f"{what}: editing the result changed the argument: {snapshot_diff(s, snapshot(a))}", extra={"fn": fn})
            return
    # and the other way round
    rs = [snapshot(x) for x in res]
    for a in arg_circuits:
        scripted_edit(cg, a)
    for x, s in zip(res, rs):
        if snapshot(x) != s:
            ctx.violation("editing_argument_changed_result", f"{what}: editing the argument changed the result: {snapshot_diff(s, snapshot(x))}", extra={"fn": fn})
            return
    ctx.count("edit_checks", len(res))


def gates(counters, table, tier):
    out = [f"public function {k.split(':', 1)[1]} is not driven by the workload" for k in counters if k.startswith("undriven:")]
    ext = {"tx.syn", "tx.aig", "utils.visualize"}
    for fn in FUNCS:
        n = counters.get(f"fn:{fn}", 0)
        if n == 0:
            # a function removed from the tree is not an error; only existing ones are required
            continue
        if n < 3:
            out.append(f"{fn} driven only {n} times")
        if fn not in ext and counters.get(f"outcome:{fn}:ok", 0) < 1:
            out.append(f"{fn} never returned normally")
    for k in ("raised", "returned", "edit_checks", "identity_checks", "class:escaped", "sparse_attributes"):
        if counters.get(k, 0) < 20:
            out.append(f"{k} seen {counters.get(k, 0)} times")
    return out
