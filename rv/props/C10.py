"""C10 - ternary encoding computes Kleene three-valued simulation."""
from itertools import product

from rv.gen import circuits as G
from rv.oracle import sim
from rv.oracle.sim import Net, X
from rv.props._util import own_lint

RULE = (
    "random lint-clean blackbox-free circuits, all gate types at fan-in 1..5, constants 0/1, <=5 inputs (thorough 6), hostile names "
    "(g_X, a_is_0, g_x_in_fi ...); the returned circuit is evaluated bit-parallel for ALL valuations of inputs and input companions, "
    "i.e. all 3^|inputs| ternary patterns with both arbitrary binary values under X; for every node n: mapping[n]=1 iff gate-by-gate "
    "Kleene evaluation gives X, otherwise n carries the Kleene value. non-trivial = >=2 inputs and >=1 multi-input gate; distinct = canonical circuit"
)
BUDGET = {
    "quick": {"workers": 16, "cases": 600, "secs": 60, "min_cases": 4800},
    "thorough": {"workers": 16, "rounds": 4, "cases": 1600, "secs": 420, "min_cases": 51200},
}
SIBLINGS = True  # consecutive cases with identical structure and different gate types
ANCHORS = ["tx:ternary"]


def gen(rng, ctx):
    big = ctx.tier == "thorough"
    ni = rng.randint(1, 4 if not big else 5)
    if rng.random() < 0.1:
        ni = 5 if not big else 6
    ng = rng.randint(1, 9 if not big else 13)
    force = (rng.choice(G.GATESN), rng.choice([1, 2, 3, 4, 5])) if rng.random() < 0.5 else None
    cd = G.rand_circuit(rng, ni, ng, max_fanin=5, p_wide=0.3, p_const=0.25, force=force, allow_x=rng.random() < 0.05, p_large=0.05)
    kind = "plain"
    if rng.random() < 0.25:
        names = [n for n, _, _ in cd["nodes"]]
        v = rng.choice(names)
        o = rng.choice([n for n in names if n != v] or names)
        new = rng.choice([f"{o}_not", f"{o}_not", f"{o}_not_X", f"{o}_X_in_fi", f"{o}_X", f"{o}_X_0", f"{o}_is_0", f"{o}_is_1", f"{o}_not_x", f"{o}_x_in_fi", f"{o}_0_not_in_fi", f"{o}_1_not_in_fi", f"{o}_x_in_fi_0"])
        try:
            cd = G.cd_rename(cd, {v: new})
            kind = "hostile"
        except ValueError:
            pass
    if kind == "plain" and rng.random() < 0.08:
        cd, tag = G.ambiguous_names(rng, cd)
        if tag:
            kind = "ambiguous"
    if rng.random() < 0.3:
        cd = G.shuffle_nodes(rng, cd)
    return {"c": cd, "kind": kind, "via": rng.choice(["graph", "api", "sparse"]), "repeat": rng.random() < 0.2}


def check(case, ctx):
    cg = ctx.cg
    cd = case["c"]
    c = G.build(cg, cd, case["via"])
    net = Net.of(c)
    ctx.count(f"class:{case['kind']}")
    G.gate_arity_table(cd, ctx.table)
    ins = sorted(net.inputs())
    if len(ins) < 2 or not any(t in G.GATESN and len(net.preds[n]) > 1 for n, t in net.types.items()):
        ctx.trivial()
    ok, r = ctx.call(cg.tx.ternary, c)
    if case.get("repeat"):
        from rv.props._util import repeat_call

        ok, r = repeat_call(ctx, "ternary", "ternary", cg.tx.ternary, (c,), {}, (ok, r))
    if not ok:
        if net.has_x() and isinstance(r, ValueError):
            ctx.reject("x_constant")
            return
        ctx.violation("ternary_raised", f"ternary raised {r!r}\n{getattr(r, '_tb', '')}")
        return
    if net.has_x():
        ctx.count("x_accepted")
        return
    try:
        t, mapping = r
        tn = Net.of(t)
    except Exception as e:  # noqa: BLE001
        ctx.violation("ternary_result", f"unexpected result {r!r}: {e!r}")
        return
    ctx.count("cmp:ternary")
    nodes = net.nodes()
    if set(mapping) != set(nodes):
        ctx.violation("mapping_keys", f"mapping keys {sorted(mapping)} != nodes {sorted(nodes)}")
        return
    comp = [mapping[n] for n in nodes]
    if len(set(comp)) != len(comp) or set(comp) & set(nodes) or not set(comp) <= set(tn.types):
        ctx.violation("mapping_values", f"companions not distinct fresh nodes of the result: {mapping}")
        return
    for n in nodes:
        if tn.types.get(n) != net.types[n] or set(tn.preds.get(n, [])) != set(net.preds[n]):
            ctx.violation("ternary_not_containing_c", f"node {n!r} changed: {net.types[n]}{net.preds[n]} -> {tn.types.get(n)}{tn.preds.get(n)}")
            return
    probs = own_lint(tn)
    okl, rl = ctx.call(cg.lint, t)
    if probs or not okl:
        ctx.violation("ternary_illformed", f"result not lint-clean: {probs[:3]} {rl if not okl else ''}")
        return
    free = tn.free()
    want_free = set(ins) | {mapping[i] for i in ins}
    if set(free) != want_free:
        ctx.violation("ternary_free_signals", f"free signals {sorted(free)} != inputs and their companions {sorted(want_free)}")
        return
    for n in nodes:
        if net.outputs >= {n} and mapping[n] not in tn.outputs and net.types[n] != "input":
            ctx.count("note:companion_of_output_not_output")
    order = ins + [mapping[i] for i in ins]
    vals, k = sim.functions(tn, order)
    ni = len(ins)
    # Kleene value of every node for every ternary pattern
    kle = {}
    for pat in product((0, 1, X), repeat=ni):
        kle[pat] = sim.kleene(net, dict(zip(ins, pat)))
    ctx.count("ternary_patterns", len(kle))
    ctx.count("valuations", 1 << k)
    for j in range(1 << k):
        bins = [(j >> i) & 1 for i in range(ni)]
        xs = [(j >> (ni + i)) & 1 for i in range(ni)]
        pat = tuple(X if xs[i] else bins[i] for i in range(ni))
        kv = kle[pat]
        for n in nodes:
            mx = (vals[mapping[n]] >> j) & 1
            if (kv[n] == X) != bool(mx):
                ctx.violation("ternary_x_flag", f"pattern {dict(zip(ins, pat))} (binary values under X: {dict(zip(ins, bins))}): Kleene value of {n!r} ({net.types[n]}) is {kv[n]} but companion {mapping[n]!r} = {mx}")
                return
            if kv[n] != X and ((vals[n] >> j) & 1) != kv[n]:
                ctx.violation("ternary_value", f"pattern {dict(zip(ins, pat))}: node {n!r} carries {(vals[n] >> j) & 1}, Kleene value {kv[n]}")
                return


def gates(counters, table, tier):
    out = []
    for t in G.GATESN:
        for a in ("1", "2", "3", "4+"):
            if table.get(f"{t}/{a}", 0) < 3:
                out.append(f"gate {t} at fan-in {a} seen {table.get(f'{t}/{a}', 0)} times")
    for k in ("class:hostile", "cmp:ternary"):
        if counters.get(k, 0) < 10:
            out.append(f"{k} seen {counters.get(k, 0)} times")
    return out
