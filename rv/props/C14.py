"""C14 - the fast Verilog parser agrees with the full parser on its documented subset."""
import os
import re
import tempfile
import zlib

from rv.gen import circuits as G
from rv.gen import netlists as N
from rv.oracle import sim
from rv.oracle.sim import Net

RULE = (
    "three sources of restricted-subset text: (1) random ASTs in the fast parser's documented subset (any gate mix and arity, constants as gate operands, pin "
    "ties and assigns, assigns of a net, blackboxes with unconnected pins, any statement order, random spaces/tabs/newlines everywhere (the module header is closed by ');'), named port lists with and without blanks, no comments), "
    "(2) circuit_to_verilog output for random circuits (gate-primitive form, constants, blackboxes with unconnected pins), (3) bundled library netlists that pass a checker of the "
    "documented restrictions; the fast parser is called directly or through from_file(fast=True) on a temporary file, blackbox definitions as list / tuple / set / dict view; verilog_to_circuit(fast=True) and the full parser must give the same inputs, outputs, blackbox registry, pin nets, and - after renaming the shared "
    "constant nodes - identical graphs and the same function at every output and bb_input. On a disagreement the generated AST's evaluator says which parser deviates. "
    "non-trivial = >=2 statements; distinct = text"
)
BUDGET = {
    "quick": {"workers": 16, "cases": 170, "secs": 60, "min_cases": 1360},
    "thorough": {"workers": 16, "rounds": 4, "cases": 520, "secs": 420, "min_cases": 16640},
}
ANCHORS = ["parsing.fast_verilog:fast_parse_verilog_netlist", "parsing.verilog:parse_verilog_netlist", "io:verilog_to_circuit"]

LIB_QUICK = ["c17", "s27", "mux_2", "mux_4", "c17_gates", "c17g"]
LIB_THOROUGH = LIB_QUICK + ["c432", "c499", "c880", "c1355", "c432g", "c499g", "s27_unrolled_4"]
LIB_BBS = [("ff", ["CK", "D"], ["Q"]), ("flopd", ["CK", "D"], ["Q"]), ("fflopd", ["CK", "D"], ["Q"])]


def restricted(text):
    """Checker of the documented restrictions (applied to the text from `module` on)."""
    m = re.search(r"\bmodule\b", text)
    if not m:
        return "no module"
    body = text[m.start():]
    if len(re.findall(r"\bmodule\b", body)) != 1:
        return "several modules"
    if "//" in body or "/*" in body:
        return "comments"
    if "\\" in body:
        return "escaped identifiers"
    for stmt in body.split(";"):
        s = stmt.strip()
        if s.startswith("assign"):
            if not re.fullmatch(r"assign\s+[A-Za-z_][A-Za-z\d_$]*\s*=\s*([A-Za-z_][A-Za-z\d_$]*|1'[bhd][01])\s*", s):
                return "assign with expression"
        elif re.match(r"(and|nand|or|nor|xor|xnor|buf|not)\b", s):
            if not re.fullmatch(r"[a-z]+\s+[A-Za-z_][A-Za-z\d_$]*\s*\([^()]*\)", s, re.S):
                return "unnamed / multiple / expression primitive instance"
    hm = re.search(r"\bmodule\s+[^\s(]+\s*\(.*?\)(\s*);", body, re.S)
    if not hm or hm.group(1):
        return "module header not closed by );"
    if re.search(r"1'(bx|hx|b[zZ])", body):
        return "x/z constants"
    return None


def gen(rng, ctx):
    big = ctx.tier == "thorough"
    r = rng.random()
    libs = LIB_THOROUGH if big else LIB_QUICK
    if ctx.gen_index == 0:
        return {"src": "lib", "lib": libs[ctx.index % len(libs)]}
    if r < 0.08:
        return {"src": "lib", "lib": rng.choice(LIB_THOROUGH if big else LIB_QUICK)}
    if r < 0.4:
        ni = rng.randint(1, 5)
        cd = G.rand_circuit(rng, ni, rng.randint(1, 9 if not big else 14), max_fanin=5, p_wide=0.3, p_const=rng.choice([0.0, 0.4]), p_input_output=rng.choice([0.0, 0.2]), p_const_output=0.2)
        if rng.random() < 0.4:
            cd = G.add_blackboxes(rng, cd, rng.randint(1, 2), p_unconnected=rng.choice([0.0, 0.4]))
        if rng.random() < 0.08:
            # no primary input at all (constants / blackbox outputs are the only sources)
            cd["nodes"] = [[n, (rng.choice(["0", "1"]) if t == "input" else t), False if t == "input" else o] for n, t, o in cd["nodes"]]
            if not any(o for _, _, o in cd["nodes"]):
                cd["nodes"][-1][2] = True
        return {"src": "writer", "c": cd}
    nl = N.gen_netlist(rng, "fast", max_stmts=10 if not big else 16, max_inputs=5)
    if rng.random() < 0.12:
        # nets named like the parsers' constant nodes
        cands = nl["wires"] + nl["outputs"] + nl["inputs"]
        m = {}
        for w in rng.sample(cands, min(len(cands), rng.randint(1, 3))):
            nn = rng.choice(["tie0", "tie1", "tie_0", "tie_1", "tie0_0", "tie0_1", "tie0_2", "tie1_1", "tie1_3", "n_input", "x_output", "hotwire", "reg_input", "in_output", "n_endmodule", "endmodule_1", "xendmodulex", "b_endmodule"])
            if nn not in m.values() and nn not in cands:
                m[w] = nn
        nl = N.rename_nets(nl, m)
        nl["renamed"] = sorted(m.values())
    prime = None
    if "renamed" not in nl and len(nl["inputs"]) >= 2 and rng.random() < 0.15:
        # nets named like the temporaries the full parser synthesises for expressions, and an earlier, unrelated parse
        # (same process) of a behavioural module in which exactly those temporaries were created
        a, b = nl["inputs"][:2]
        pool = [f"and_{a}_{b}", f"not_{a}", f"or_{a}_{b}", f"xor_{a}_{b}", f"xnor_{a}_{b}", f"not_and_{a}_{b}", f"and_{b}_{a}"]
        cands = nl["wires"] + nl["outputs"]
        m = {}
        for w in rng.sample(cands, min(len(cands), rng.randint(1, 3))):
            nn = rng.choice(pool)
            if nn not in m.values() and nn not in cands + nl["inputs"]:
                m[w] = nn
        if m:
            nl = N.rename_nets(nl, m)
            nl["renamed"] = sorted(m.values())
            prime = (f"module prime({a}, {b}, p0, p1, p2, p3, p4, p5, p6);\n  input {a}, {b};\n  output p0, p1, p2, p3, p4, p5, p6;\n"
                     f"  assign p0 = {a} & {b};\n  assign p1 = ~{a};\n  assign p2 = {a} | {b};\n  assign p3 = {a} ^ {b};\n  assign p4 = {a} ~^ {b};\n"
                     f"  assign p5 = ~({a} & {b});\n  assign p6 = {b} & {a};\nendmodule\n")
    text = N.render(rng, nl, layout=rng.choice(["free", "free", "writer"]), comments=0.0)
    return {"src": "ast", "nl": nl, "text": text, "prime": prime}


def canon(net):
    """Rename the parser's constant nodes to canonical names."""
    m = {}
    for n, t in net.types.items():
        if t in ("0", "1") and not net.preds[n]:
            m[n] = f"<const{t}>"
    f = lambda x: m.get(x, x)
    types = {f(n): t for n, t in net.types.items()}
    edges = {(f(u), f(v)) for u, v in net.edges()}
    outs = {f(n) for n in net.outputs}
    return types, edges, outs, m


def check(case, ctx):
    cg = ctx.cg
    src = case["src"]
    ctx.count(f"src:{src}")
    ast = None
    if src == "lib":
        path = os.path.join(os.path.dirname(cg.__file__), "netlists", case["lib"] + ".v")
        text = open(path).read()
        why = restricted(text)
        if why:
            ctx.count(f"lib_outside_subset:{case['lib']}")
            ctx.trivial()
            return
        ctx.count(f"lib:{case['lib']}")
        name = re.search(r"\bmodule\s+([A-Za-z_][A-Za-z\d_]*)", text).group(1)
        bbs = [cg.BlackBox(n, i, o) for n, i, o in LIB_BBS]
    elif src == "writer":
        c = G.build(cg, case["c"], "graph")
        ok, text = ctx.call(cg.io.circuit_to_verilog, c)
        if not ok:
            ctx.violation("writer_raised", f"circuit_to_verilog raised {text!r}")
            return
        name = c.name
        bbs = list({id(b): b for b in c.blackboxes.values()}.values())
        why = restricted(text)
        if why:
            ctx.count(f"writer_outside_subset:{why}")
            ctx.trivial()
            return
    else:
        ast = case["nl"]
        text = case["text"]
        name = ast["name"]
        bbs = [cg.BlackBox(t, list(d["inputs"]), list(d["outputs"])) for t, d in sorted(ast["bbdefs"].items())]
        why = restricted(text)
        if why:
            raise RuntimeError(f"generator left the documented subset: {why}\n{text}")
        if len(ast["stmts"]) < 2:
            ctx.trivial()
        if ast.get("renamed"):
            ctx.count("nets_named_like_constants")
    if "\r\n" in text:
        ctx.count("crlf_line_endings")
    tail = f"\n--- text ---\n{text[:1500]}"
    # the same definitions in another legal container; the fast parser also reached through from_file
    h = zlib.crc32(text.encode())
    rep = ["list", "list", "tuple", "set", "dictvalues"][h % 5]
    bbs_arg = {"list": list, "tuple": tuple, "set": set, "dictvalues": lambda x: {id(b): b for b in x}.values()}[rep](bbs)
    if bbs:
        ctx.count(f"blackboxes_as:{rep}")
    if (h >> 8) % 4 == 0:
        with tempfile.TemporaryDirectory(prefix="rv_c14_") as td:
            path = os.path.join(td, f"{name}.v")
            with open(path, "w") as f:
                f.write(text)
            import pathlib

            okf, cf = ctx.call(cg.io.from_file, pathlib.Path(path) if (h >> 12) % 2 else path, name, blackboxes=bbs_arg, fast=True)
        ctx.count("fast_via_from_file")
    else:
        okf, cf = ctx.call(cg.io.verilog_to_circuit, text, name, blackboxes=bbs_arg, fast=True)
    if case.get("prime"):
        okp, _ = ctx.call(cg.io.verilog_to_circuit, case["prime"], "prime")
        ctx.count("after_unrelated_behavioural_parse" if okp else "note:prime_text_rejected")
    kwf = {}
    if (h >> 16) % 4 == 0:
        # diagnostics switched on: the parser reports, it does not edit
        kwf = {"warnings": True}
        ctx.count("full_parser_with_warnings")
    oks, cs = ctx.call(cg.io.verilog_to_circuit, text, name, blackboxes=bbs, **kwf)
    ctx.count("cmp:fast_vs_full")
    if not oks:
        ctx.violation("full_parser_raised", f"full parser raised {cs!r} on restricted-subset text{tail}")
        return
    if not okf:
        ctx.violation("fast_parser_raised", f"fast parser raised {cf!r} where the full parser succeeds\n{getattr(cf, '_tb', '')[-500:]}{tail}")
        return
    nf, ns = Net.of(cf), Net.of(cs)
    if re.search(r"endmodule\w|[\w$]endmodule", text):
        ctx.count("identifiers_containing_endmodule")
    if "1'b" in text:
        ctx.count("with_constants")
    if re.search(r"\(\s*\)", text):
        ctx.count("unconnected_pins")
    if nf.bbs:
        ctx.count("with_blackboxes")
    if ns.inputs() & ns.outputs:
        ctx.count("input_is_output")
    if not ns.inputs():
        ctx.count("no_primary_inputs")

    def blame():
        if ast is None:
            return ""
        try:
            val, order, k = N.evaluate(ast)
            pinof = {w: p for p, w in ast["free_bb"]}
            fixed = {pinof.get(n, n): sim.var_bits(i, k) for i, n in enumerate(order)}
            res = []
            for label, net in (("fast", nf), ("full", ns)):
                fx = dict(fixed)
                for n in net.free():
                    fx.setdefault(n, 0)
                try:
                    cv, _ = sim.functions(net, [], fixed=fx, k=k)
                    bad = [n for n, v in val.items() if cv.get(n) != v]
                except ValueError as e:
                    bad = [f"not simulable: {e}"]
                res.append(f"{label} parser deviates from the text at {bad[:4]}" if bad else f"{label} parser matches the text")
            return " [" + "; ".join(res) + "]"
        except Exception as e:  # noqa: BLE001
            return f" [attribution failed: {e!r}]"

    if nf.name != ns.name:
        ctx.count("note:circuit_names_differ")
    if nf.inputs() != ns.inputs() or nf.outputs != ns.outputs:
        ctx.violation("fast_io", f"io differs: fast {sorted(nf.inputs())}/{sorted(nf.outputs)} full {sorted(ns.inputs())}/{sorted(ns.outputs)}{blame()}{tail}")
        return
    if nf.bbs != ns.bbs:
        ctx.violation("fast_registry", f"blackbox registries differ: fast {nf.bbs} full {ns.bbs}{tail}")
        return
    tf, ef, of, mf = canon(nf)
    ts, es, os_, ms = canon(ns)
    if tf != ts or ef != es or of != os_:
        dn = {n: (tf.get(n), ts.get(n)) for n in set(tf) | set(ts) if tf.get(n) != ts.get(n)}
        ctx.violation("fast_graph", f"graphs differ (fast,full): nodes {dict(list(dn.items())[:5])} edges only-fast {sorted(ef - es)[:4]} only-full {sorted(es - ef)[:4]}{blame()}{tail}")
        return
    ctx.count("graphs_identical")
    # functions at outputs and bb inputs (implied by identical graphs; evaluated anyway)
    order = sorted(ns.free())
    if len(order) <= 12 and not ns.has_x():
        v1, k = sim.functions(ns, order)
        v2, _ = sim.functions(nf, order)
        for n in sorted(ns.outputs) + [p for p, t in ns.types.items() if t == "bb_input" and ns.preds[p]]:
            if v1[n] != v2[n]:
                ctx.violation("fast_function", f"function of {n!r} differs{blame()}{tail}")
                return
        ctx.count("functions_compared")


def gates(counters, table, tier):
    need = ["no_primary_inputs", "input_is_output", "nets_named_like_constants", "src:ast", "src:writer", "src:lib", "with_constants", "unconnected_pins", "with_blackboxes", "graphs_identical", "functions_compared", "lib:c17", "lib:s27", "fast_via_from_file", "blackboxes_as:tuple", "blackboxes_as:set", "after_unrelated_behavioural_parse", "full_parser_with_warnings", "identifiers_containing_endmodule"]
    return [f"{k} seen {counters.get(k, 0)} times" for k in need if counters.get(k, 0) < 2]
