"""C11 - sensitivity analyses agree with their definitions."""
from fractions import Fraction

from rv.gen import circuits as G
from rv.oracle import sim
from rv.oracle.sim import Net

RULE = (
    "random lint-clean blackbox-free circuits whose probed node has 1..8 startpoints in its cone (every power of two forced), probed "
    "node = input / internal / output / functionally constant; sensitization_transform (default and explicit endpoint subsets) and "
    "sensitivity_transform are simulated for ALL input valuations and compared with flip sets computed on the original circuit by "
    "the reference simulator (node forced to its complement, resp. startpoint flipped); sensitize / sensitivity / influence / "
    "avg_sensitivity are compared with max / exact Fractions from the same flip sets. non-trivial = >=2 startpoints in the cone "
    "and a multi-input gate; distinct = canonical circuit + probed node + endpoints"
)
BUDGET = {
    "quick": {"workers": 16, "cases": 90, "secs": 60, "min_cases": 720},
    "thorough": {"workers": 16, "rounds": 4, "cases": 260, "secs": 420, "min_cases": 8320},
}
ANCHORS = ["tx:sensitization_transform", "tx:sensitivity_transform", "props:sensitivity", "props:influence", "props:avg_sensitivity", "props:sensitize"]


def gen_wide(rng):
    """11..13 startpoints under one product term (few satisfying valuations, so the exact counts stay cheap): the
    influences are odd multiples of 2^-(k-1), beyond the precision of any decimal rounding."""
    k = rng.randint(11, 13)
    cd = G.new_cdict("wideinf")
    ins = [f"i{j}" for j in range(k)]
    cd["nodes"] += [[x, "input", False] for x in ins]
    lits = []
    for x in ins:
        if rng.random() < 0.3:
            cd["nodes"].append([f"n_{x}", "not", False])
            cd["edges"].append([x, f"n_{x}"])
            lits.append(f"n_{x}")
        else:
            lits.append(x)
    rng.shuffle(lits)
    groups, j, loose = [], 0, rng.random() < 0.5
    while lits:
        sz = min(len(lits), rng.randint(2, 4))
        grp, lits = lits[:sz], lits[sz:]
        t = rng.choice(["and", "nor"]) if len(grp) > 1 else "buf"
        if loose and len(grp) == 2:
            t, loose = rng.choice(["or", "nand", "xor"]), False
        cd["nodes"].append([f"g{j}", t, False])
        cd["edges"] += [[x, f"g{j}"] for x in grp]
        groups.append(f"g{j}")
        j += 1
    cd["nodes"].append(["top", "and", True])
    cd["edges"] += [[g, "top"] for g in groups]
    return {"c": cd, "n": "top", "mode": "wide_influence", "endpoints": None, "assume": {}}


def check_wide(case, ctx):
    cg = ctx.cg
    c = G.build(cg, case["c"], "graph")
    net = Net.of(c)
    n = case["n"]
    ins = sorted(net.inputs())
    k = len(ins)
    ctx.count("mode:wide_influence")
    ctx.count(f"cone_startpoints:{k}")
    vals, _ = sim.functions(net, ins)
    want = {}
    for i, s in enumerate(ins):
        want[s] = Fraction(sim.popcount(vals[n] ^ flip_var(vals[n], i, k)), 1 << k)
    ok, r = ctx.call(cg.props.influence, c, n, approx=False)
    ctx.count("cmp:influence_11plus_startpoints")
    if not ok:
        ctx.violation("influence_raised", f"influence({n!r}, approx=False) raised {r!r}\n{getattr(r, '_tb', '')}")
        return
    try:
        got = {s: Fraction(v) for s, v in r.items()}
    except Exception:  # noqa: BLE001
        got = None
    if got != want:
        bad = sorted(s for s in want if got is None or got.get(s) != want[s])[:3]
        ctx.violation("influence", f"influence({n!r}) with {k} startpoints: {({s: r.get(s) for s in bad} if isinstance(r, dict) else r)!r}, exact fractions are { {s: str(want[s]) for s in bad} }")
        return
    ok, r = ctx.call(cg.props.avg_sensitivity, c, n, approx=False)
    ctx.count("cmp:avg_sensitivity")
    if not ok:
        ctx.violation("avg_sensitivity_raised", f"avg_sensitivity({n!r}, approx=False) raised {r!r}")
    elif Fraction(r) != sum(want.values()):
        ctx.violation("avg_sensitivity", f"avg_sensitivity({n!r}) = {r}, the exact sum of the influences is {sum(want.values())}")


def gen(rng, ctx):
    big = ctx.tier == "thorough"
    if rng.random() < 0.03:
        return gen_wide(rng)
    want_sp = rng.choice([1, 2, 2, 3, 4, 4, 5, 6, 7, 8, 8] if big else [1, 2, 2, 3, 4, 4, 5, 6, 7, 8])
    ni = want_sp + rng.randint(0, 1)
    ng = rng.randint(max(1, want_sp - 1), 8 if not big else 11)
    cd = G.rand_circuit(rng, ni, ng, max_fanin=4, p_wide=0.3, shape=rng.choice(["tree", "random", "random", "diamond"]), p_const=0.1)
    nodes = [n for n, _, _ in cd["nodes"]]
    tps = G.cd_types(cd)
    mode = rng.choice(["internal", "internal", "output", "input", "const_fn", "widest"])
    if mode == "const_fn":
        # z = and(g, not g): functionally constant, sensitivity 0
        g = rng.choice([n for n in nodes if tps[n] not in ("0", "1")])
        cd["nodes"] += [["zn", "not", False], ["z", rng.choice(["and", "nor", "xor"]), True]]
        cd["edges"] += [[g, "zn"], [g, "z"], ["zn", "z"]]
        n = "z"
    elif mode == "input":
        n = rng.choice([x for x in nodes if tps[x] == "input"])
    elif mode == "output":
        n = rng.choice(G.cd_outputs(cd) or nodes)
    elif mode == "widest":
        # the node with most inputs in its cone
        preds = G.cd_preds(cd)

        def cone(x, seen):
            for p in preds[x]:
                if p not in seen:
                    seen.add(p)
                    cone(p, seen)
            return seen

        n = max(nodes, key=lambda x: len([y for y in cone(x, {x}) if tps[y] == "input"]))
    else:
        n = rng.choice([x for x in nodes if tps[x] in G.ALL_GATES] or nodes)
    if mode in ("widest", "output") and rng.random() < 0.7:
        # a top gate whose cone contains every input
        preds = G.cd_preds(cd)
        covered = set()
        outs0 = G.cd_outputs(cd)
        stack = list(outs0)
        while stack:
            x = stack.pop()
            if x in covered:
                continue
            covered.add(x)
            stack.extend(preds[x])
        fan = list(dict.fromkeys(outs0 + [x for x in nodes if tps[x] == "input" and x not in covered]))
        if len(fan) >= 2:
            cd["nodes"].append(["top", rng.choice(G.GATESN), True])
            cd["edges"] += [[x, "top"] for x in fan]
            n = "top"
    if tps.get(n) in G.ALL_GATES and rng.random() < 0.1:
        # n is the ONLY output, and a primary input lies outside its cone
        cd["nodes"] = [[x, t, x == n] for x, t, _ in cd["nodes"]] + [["spare_in", "input", False]]
        mode += "+sole_output"
    outs = G.cd_outputs(cd)
    if rng.random() < 0.08:
        # an unknown-value tie-off in another part of the circuit (never in the cone of n): cone-restricted
        # analyses of n are not concerned by it
        cd["nodes"] += [["kx", "x", False], ["gx", rng.choice(["and", "or", "xor"]), True]]
        cd["edges"] += [["kx", "gx"], [rng.choice([x for x in nodes if tps[x] == "input"]), "gx"]]
    eps = None
    if rng.random() < 0.4 and outs:
        eps = rng.sample(outs, rng.randint(1, len(outs)))
        if rng.random() < 0.3:
            # compared endpoints need not be outputs
            inner = [x for x in nodes if tps[x] in G.ALL_GATES and x not in eps]
            if inner:
                eps = eps + rng.sample(inner, 1)
        if len(eps) == 1 and rng.random() < 0.5:
            eps = eps[0]
    assume = {}
    if rng.random() < 0.25:
        ins = [x for x in nodes if tps[x] == "input"]
        for x in rng.sample(ins, min(len(ins), rng.randint(1, 2))):
            assume[x] = rng.random() < 0.5
    if rng.random() < 0.05 and not eps:
        # n is a tie-off cell (constant node) feeding live logic: "every node n"
        multi = [x for x in nodes if tps[x] in G.GATESN]
        if multi:
            cd["nodes"].append(["kc", rng.choice(["0", "1"]), False])
            cd["edges"].append(["kc", rng.choice(multi)])
            n, mode, assume = "kc", "const_node", {}
    if rng.random() < 0.1:
        # startpoints named like the nodes of an indexed / named inverted copy (inv0_<x>, inv_1_<x>, <x>_inv0)
        alln = [x for x, _, _ in cd["nodes"]]
        ins = [x for x in alln if G.cd_types(cd)[x] == "input"]
        m = {}
        for j, x in enumerate(rng.sample(ins, min(len(ins), rng.randint(1, 2)))):
            y = rng.choice([z for z in alln if z != x] or ["g"])
            nn = rng.choice([f"inv{j}_{y}", f"inv{rng.randint(0, 2)}_{y}", f"inv{j}"])
            if nn not in alln and nn not in m.values():
                m[x] = nn
        if m:
            try:
                cd = G.cd_rename(cd, m)
                n = m.get(n, n)
                eps = (m.get(eps, eps) if isinstance(eps, str) else [m.get(e, e) for e in eps]) if eps else eps
                assume = {m.get(a, a): v for a, v in assume.items()}
                mode += "+indexed_copy_names"
            except ValueError:
                pass
    return {"c": cd, "n": n, "mode": mode, "endpoints": eps, "assume": assume}


def flip_var(f, i, k):
    """f with free variable i complemented (bit-parallel)."""
    vb = sim.var_bits(i, k)
    sh = 1 << i
    mask = (1 << (1 << k)) - 1
    return (((f & vb) >> sh) | ((f & (vb ^ mask)) << sh)) & mask


def check(case, ctx):
    if case["mode"] == "wide_influence":
        return check_wide(case, ctx)
    cg = ctx.cg
    cd = case["c"]
    n = case["n"]
    c = G.build(cg, cd, "sparse" if len(cd["nodes"]) % 3 == 0 else "graph")
    net = Net.of(c)
    ctx.count(f"mode:{case['mode'].split('+')[0]}")
    if "indexed_copy_names" in case["mode"]:
        ctx.count("startpoints_named_like_indexed_copies")
    if "sole_output" in case["mode"]:
        ctx.count("sole_output_with_input_outside_cone")
    ins = sorted(net.inputs())
    if len(ins) > 12:
        return
    from rv.oracle.graphdefs import reach

    cone = reach(net.preds, [n]) | {n}
    xs = sorted(x for x, t in net.types.items() if t == "x")
    if any(x in cone for x in xs):
        ctx.count("skipped:x_in_cone")
        return
    if xs:
        ctx.count("x_constant_outside_the_cone")
    ins_all = ins + xs  # `x` nodes outside the cone: opaque extra sources for the reference simulation
    k = len(ins_all)
    mask = (1 << (1 << k)) - 1
    vals, _ = sim.functions(net, ins_all)
    # cone startpoints of n (own reachability)
    sp = sorted(x for x in cone if net.types[x] == "input")
    ctx.count(f"cone_startpoints:{len(sp)}")
    if len(sp) < 2 or not any(t in G.GATESN and len(net.preds[x]) > 1 for x, t in net.types.items()):
        ctx.trivial()

    # ------------------------------------------------------------ sensitization_transform
    eps = case["endpoints"]
    eset = ({eps} if isinstance(eps, str) else set(eps)) if eps else set(net.outputs)
    forced, _ = sim.functions(net, ins_all, override={n: (lambda v: v ^ mask)})
    diff = 0
    for e in eset:
        diff |= vals[e] ^ forced[e]
    in_domain = True
    if eps:
        fi = set()
        for e in eset:
            fi |= reach(net.preds, [e])
        in_domain = n in fi or n in eset
    x_reaches_eps = bool(xs) and (not eps or any(x in reach(net.preds, [e]) for e in eset for x in xs))
    if x_reaches_eps:
        ok, m = True, None
        ctx.count("skipped:sensitization_with_x_in_scope")
    else:
        eps_passed = list(eps) if isinstance(eps, list) else eps
        ok, m = ctx.call(cg.tx.sensitization_transform, c, n, eps_passed)
        if eps_passed != eps:
            ctx.violation("sensitization_modified_endpoints", f"sensitization_transform({n!r},{eps!r}) changed the caller's endpoint list to {eps_passed}")
            return
    if m is None and ok:
        pass
    elif not ok:
        if isinstance(m, ValueError) and eps and n not in fi:
            ctx.reject("node_not_in_fanin_of_endpoints")
            if n in eset:
                ctx.count("note:n_is_endpoint_rejected")
        else:
            ctx.violation("sensitization_transform_raised", f"sensitization_transform({n!r},{eps!r}) raised {m!r}\n{getattr(m, '_tb', '')}")
    else:
        mn = Net.of(m)
        ctx.count("cmp:sensitization_transform")
        if eps:
            ctx.count("explicit_endpoints")
        free = mn.free()
        if not set(free) <= set(ins):
            ctx.violation("sensitization_free", f"free signals {sorted(free)} are not inputs of the circuit")
        elif "sat" not in mn.types:
            ctx.violation("sensitization_nosat", "no `sat` node")
        else:
            mv, _ = sim.functions(mn, ins_all)
            ctx.count("sens_possible" if diff else "sens_impossible")
            if mv["sat"] != diff:
                d = mv["sat"] ^ diff
                j = (d & -d).bit_length() - 1
                ctx.violation("sensitization_sat", f"under {sim.index_valuation(ins_all, j)} sat={sim.bit_at(mv['sat'], j)} but inverting {n!r} {'changes' if sim.bit_at(diff, j) else 'does not change'} endpoints {sorted(eset)}")

    # ------------------------------------------------------------ the same query after a rewiring that keeps all counts
    if eps and not xs and in_domain and len(cd["edges"]) % 3 == 0:
        cone_e = set(eset)
        for e in eset:
            cone_e |= reach(net.preds, [e])
        for g in sorted(cone_e):
            if net.types[g] not in G.GATESN or len(net.preds[g]) < 2 or g == n:
                continue
            new_drv = [i for i in ins if i not in net.preds[g] and i not in cone_e]
            if not new_drv:
                continue
            cb = G.build(cg, cd, "graph")
            ok1, _ = ctx.call(cg.tx.sensitization_transform, cb, n, eps)  # first analysis of this object
            old = sorted(net.preds[g])[0]
            cb.disconnect(old, g)
            cb.connect(new_drv[0], g)  # same number of nodes and edges, another cone
            nb = Net.of(cb)
            fi_b = set()
            for e in eset:
                fi_b |= reach(nb.preds, [e])
            if not ok1 or not (n in fi_b or n in eset):
                break
            vb_, _ = sim.functions(nb, ins_all)
            fb_, _ = sim.functions(nb, ins_all, override={n: (lambda v: v ^ mask)})
            diff_b = 0
            for e in eset:
                diff_b |= vb_[e] ^ fb_[e]
            ok2, m2 = ctx.call(cg.tx.sensitization_transform, cb, n, eps)
            ctx.count("requery_after_count_preserving_rewire")
            if not ok2:
                ctx.violation("sensitization_transform_raised", f"after moving one wire ({old}->{g} became {new_drv[0]}->{g}): sensitization_transform({n!r},{eps!r}) raised {m2!r}")
            else:
                try:
                    mv2, _ = sim.functions(Net.of(m2), ins_all)
                    if mv2.get("sat") != diff_b:
                        ctx.violation("sensitization_sat_after_rewire", f"after moving one wire ({old}->{g} became {new_drv[0]}->{g}) on the same Circuit object, `sat` of sensitization_transform({n!r},{eps!r}) no longer matches the circuit")
                except (ValueError, KeyError) as e_:
                    ctx.violation("sensitization_sat_after_rewire", f"after moving one wire the transform result cannot be evaluated: {e_!r}")
            break

    # ------------------------------------------------------------ sensitize (all outputs)
    diff_all = 0
    for e in net.outputs:
        diff_all |= vals[e] ^ forced[e]
    A = case["assume"]
    dA = diff_all
    for x, v in A.items():
        vb = sim.var_bits(ins.index(x), k)
        dA &= vb if v else vb ^ mask
    if xs:
        ok, r = True, "skipped"  # sensitize looks at every output: the `x` node is in its scope
    else:
        a_passed = dict(A) if A else None
        ok, r = ctx.call(cg.props.sensitize, c, n, a_passed)
        if A and a_passed != A:
            ctx.violation("sensitize_modified_assumptions", f"sensitize({n!r},{A}) changed the caller's assumptions dict to {a_passed}")
            return
        ctx.count("cmp:sensitize")
    if r == "skipped":
        pass
    elif not ok:
        ctx.violation("sensitize_raised", f"sensitize({n!r},{A}) raised {r!r}\n{getattr(r, '_tb', '')}")
    elif r is None:
        ctx.count("sensitize_none")
        if dA:
            j = (dA & -dA).bit_length() - 1
            ctx.violation("sensitize_none_but_exists", f"sensitize({n!r},{A}) returned None but {sim.index_valuation(ins_all, j)} sensitizes it")
    else:
        ctx.count("sensitize_found")
        if not isinstance(r, dict) or not set(r) <= set(ins):
            ctx.violation("sensitize_keys", f"sensitize returned {r!r}")
        elif not dA:
            ctx.violation("sensitize_found_but_none", f"sensitize({n!r},{A}) returned {r} but no valuation sensitizes the node")
        else:
            # inputs missing from the result are outside every cone: any value
            cand = dA
            for x, v in r.items():
                vb = sim.var_bits(ins.index(x), k)
                cand &= vb if v else vb ^ mask
            if not cand:
                ctx.violation("sensitize_wrong", f"sensitize({n!r},{A}) returned {r}, which does not sensitize the node (or ignores the assumptions)")

    # ------------------------------------------------------------ per-startpoint flip sets of n
    if not sp:
        ok, r = ctx.call(cg.tx.sensitivity_transform, c, n)
        if ok or not isinstance(r, ValueError):
            ctx.violation("sensitivity_no_startpoints", f"sensitivity_transform on a node without startpoints gave {r!r}")
        else:
            ctx.reject("no_startpoints")
        return
    fl = {}
    for s in sp:
        fl[s] = vals[n] ^ flip_var(vals[n], ins.index(s), k)
    counts = [sum((fl[s] >> j) & 1 for s in sp) for j in range(1 << k)]
    want_sens = max(counts)
    want_infl = {s: Fraction(sim.popcount(fl[s]), 1 << k) for s in sp}
    ctx.count(f"sensitivity:{want_sens if want_sens < 4 else '4+'}")

    if len(cd["nodes"]) % 2 == 0:
        # the caller obtained the population-count block of this width earlier and edited its own copy
        from rv.props._util import _damage

        okp, pc = ctx.call(cg.logic.popcount, len(sp))
        if okp:
            _damage(pc)
            ctx.count("popcount_block_edited_before_analysis")
    ok, st = ctx.call(cg.tx.sensitivity_transform, c, n)
    if not ok:
        if "indexed_copy_names" in case["mode"] and isinstance(st, ValueError) and "overlap" in str(st):
            ctx.reject("copy_name_taken")
            return
        ctx.violation("sensitivity_transform_raised", f"sensitivity_transform({n!r}) raised {st!r}\n{getattr(st, '_tb', '')}")
    else:
        sn = Net.of(st)
        ctx.count("cmp:sensitivity_transform")
        if set(sn.free()) != set(sp):
            ctx.violation("sensitivity_transform_inputs", f"free signals {sorted(sn.free())} != startpoints {sp}")
        else:
            sv, _ = sim.functions(sn, ins_all)
            bad = False
            for s in sp:
                name = f"dif_out_{s}"
                if name not in sv:
                    ctx.violation("sensitivity_transform_nodes", f"missing {name}")
                    bad = True
                    break
                if sv[name] != fl[s]:
                    d = sv[name] ^ fl[s]
                    j = (d & -d).bit_length() - 1
                    ctx.violation("dif_out", f"under {sim.index_valuation(ins_all, j)} {name}={sim.bit_at(sv[name], j)} but flipping {s!r} {'flips' if sim.bit_at(fl[s], j) else 'does not flip'} {n!r}")
                    bad = True
                    break
            if not bad:
                sen_bits = sorted((x for x in sn.outputs if x.startswith("sen_out_")), key=lambda x: int(x.rsplit("_", 1)[1]))
                idx = [int(x.rsplit("_", 1)[1]) for x in sen_bits]
                if idx != list(range(len(idx))) or (1 << len(idx)) <= len(sp):
                    ctx.violation("sen_out_width", f"sen_out bits {sen_bits} cannot encode 0..{len(sp)}")
                else:
                    for j in range(1 << k):
                        got = sum(((sv[b] >> j) & 1) << o for o, b in enumerate(sen_bits))
                        if got != counts[j]:
                            ctx.violation("sen_out", f"under {sim.index_valuation(ins_all, j)} sen_out encodes {got}, {counts[j]} startpoints flip {n!r}")
                            break

    if len(sp) > (8 if ctx.tier == "thorough" else 6):
        ctx.count("skipped:props_too_many_startpoints")
        return
    ok, r = ctx.call(cg.props.sensitivity, c, n)
    ctx.count("cmp:sensitivity")
    if not ok:
        ctx.violation("sensitivity_raised", f"sensitivity({n!r}) raised {r!r}\n{getattr(r, '_tb', '')}")
    elif r != want_sens:
        ctx.violation("sensitivity", f"sensitivity({n!r}) = {r}, maximum over all valuations is {want_sens} ({len(sp)} startpoints)")

    ok, r = ctx.call(cg.props.influence, c, n, approx=False)
    ctx.count("cmp:influence")
    if not ok:
        ctx.violation("influence_raised", f"influence({n!r}, approx=False) raised {r!r}\n{getattr(r, '_tb', '')}")
    else:
        try:
            got = {s: Fraction(v) for s, v in r.items()}
        except Exception:  # noqa: BLE001
            got = None
        if got != want_infl:
            ctx.violation("influence", f"influence({n!r}) = {r}, exact fractions are { {s: str(v) for s, v in want_infl.items()} }")
    ok, r = ctx.call(cg.props.avg_sensitivity, c, n, approx=False)
    ctx.count("cmp:avg_sensitivity")
    if not ok:
        ctx.violation("avg_sensitivity_raised", f"avg_sensitivity({n!r}, approx=False) raised {r!r}\n{getattr(r, '_tb', '')}")
    else:
        try:
            g = Fraction(r)
        except Exception:  # noqa: BLE001
            g = None
        if g != sum(want_infl.values()):
            ctx.violation("avg_sensitivity", f"avg_sensitivity({n!r}) = {r}, exact value {sum(want_infl.values())}")
    if len(sp) <= 4 and len(cd["nodes"]) % 2 == 0:
        # "ns : str or list of str": a list with ONE node is a list - the result is keyed by node
        one = [n] if len(cd["edges"]) % 2 else (n,)
        ok, r = ctx.call(cg.props.influence, c, one, approx=False)
        ctx.count("cmp:influence_of_one_element_list")
        if not ok:
            ctx.violation("influence_raised", f"influence({one!r}, approx=False) raised {r!r}")
        elif not isinstance(r, dict) or set(r) != {n} or not isinstance(r[n], dict) or {s: Fraction(v) for s, v in r[n].items()} != want_infl:
            ctx.violation("influence_list", f"influence({one!r}) = {r}, expected one entry for {n!r} holding { {s: str(v) for s, v in want_infl.items()} }")
        ok, r = ctx.call(cg.props.avg_sensitivity, c, one, approx=False)
        if not ok:
            ctx.violation("avg_sensitivity_raised", f"avg_sensitivity({one!r}, approx=False) raised {r!r}")
        elif not isinstance(r, dict) or set(r) != {n} or Fraction(r[n]) != sum(want_infl.values()):
            ctx.violation("avg_sensitivity", f"avg_sensitivity({one!r}) = {r}, expected {{{n!r}: {sum(want_infl.values())}}}")


    # ------------------------------------------------------------ several nodes in one call
    others = sorted(x for x, t in net.types.items() if x != n and t in sim.GATES and any(net.types[y] == "input" for y in reach(net.preds, [x])) and not any(net.types[y] == "x" for y in reach(net.preds, [x])))
    if not others or (len(cd["nodes"]) + len(cd["edges"])) % 3:
        return
    n2 = others[len(cd["edges"]) % len(others)]
    sp2 = sorted(x for x in reach(net.preds, [n2]) | {n2} if net.types[x] == "input")
    if len(sp2) > 6:
        return
    want2 = {s: Fraction(sim.popcount(vals[n2] ^ flip_var(vals[n2], ins.index(s), k)), 1 << k) for s in sp2}
    for order in ([n, n2], [n2, n]):
        ok, r = ctx.call(cg.props.influence, c, list(order), approx=False)
        ctx.count("cmp:influence_of_two_nodes")
        if not ok:
            ctx.violation("influence_raised", f"influence({order!r}, approx=False) raised {r!r}\n{getattr(r, '_tb', '')}")
            return
        try:
            got = {x: {s: Fraction(v) for s, v in d.items()} for x, d in r.items()}
        except Exception:  # noqa: BLE001
            got = None
        if got != {n: want_infl, n2: want2}:
            ctx.violation("influence_list", f"influence({order!r}) = {r}, exact fractions are { {x: {s: str(v) for s, v in d.items()} for x, d in {n: want_infl, n2: want2}.items()} }")
            return
    ok, r = ctx.call(cg.props.avg_sensitivity, c, [n, n2], approx=False)
    if not ok:
        ctx.violation("avg_sensitivity_raised", f"avg_sensitivity({[n, n2]!r}, approx=False) raised {r!r}")
    else:
        try:
            got = {x: Fraction(v) for x, v in r.items()}
        except Exception:  # noqa: BLE001
            got = None
        if got != {n: sum(want_infl.values()), n2: sum(want2.values())}:
            ctx.violation("avg_sensitivity_list", f"avg_sensitivity({[n, n2]!r}) = {r}, exact values { {n: str(sum(want_infl.values())), n2: str(sum(want2.values()))} }")


def gates(counters, table, tier):
    out = []
    for s in (1, 2, 3, 4, 5, 6, 7, 8):
        if counters.get(f"cone_startpoints:{s}", 0) < 3:
            out.append(f"cone with {s} startpoints seen {counters.get(f'cone_startpoints:{s}', 0)} times")
    for k in ("mode:input", "mode:const_fn", "mode:output", "explicit_endpoints", "sens_impossible", "sens_possible", "sensitize_none", "sensitize_found", "sensitivity:0", "cmp:influence", "cmp:influence_of_two_nodes", "cmp:sensitivity_transform", "x_constant_outside_the_cone", "popcount_block_edited_before_analysis", "requery_after_count_preserving_rewire", "sole_output_with_input_outside_cone", "cmp:influence_11plus_startpoints", "cmp:influence_of_one_element_list", "startpoints_named_like_indexed_copies", "mode:const_node"):
        if counters.get(k, 0) < 5:
            out.append(f"{k} seen {counters.get(k, 0)} times")
    return out
