"""C16 - remove_unloaded deletes exactly the dead logic."""
from rv.gen import circuits as G
from rv.monitor import snapshot
from rv.oracle.graphdefs import reach
from rv.oracle.sim import Net

RULE = (
    "live random circuits decorated with dead logic: dead gates fed only by inputs, inputs without any load, inputs loaded only by dead "
    "logic, dead chains/trees, dead nodes sharing fan-in with live logic, dead constants, blackbox pins (inputs=False) or blackbox-free "
    "(inputs=True); after Circuit.remove_unloaded(inputs) the removed set must equal {dead gates, dead constants (+dead inputs iff inputs)} "
    "computed by own reverse reachability from outputs and bb_input pins, survivors keep type/fan-in/output mark, the returned list equals the "
    "removed set without duplicates, and a second call returns [] and changes nothing. non-trivial = >=1 dead node; distinct = canonical circuit + flag"
)
BUDGET = {
    "quick": {"workers": 16, "cases": 1500, "secs": 60, "min_cases": 12000},
    "thorough": {"workers": 16, "rounds": 4, "cases": 4000, "secs": 420, "min_cases": 128000},
}
SIBLINGS = True  # consecutive cases with identical structure and different gate types
ANCHORS = ["circuit:Circuit.remove_unloaded"]


def gen(rng, ctx):
    big = ctx.tier == "thorough"
    if rng.random() < (0.004 if big else 0.001) or (ctx.gen_index == 0 and ctx.index < 4):
        from rv.gen import libnets

        return {"lib": libnets.pick(rng, ctx.tier) if ctx.gen_index else ["c17", "s27", "c432", "mux_4"][ctx.index % 4], "seed": rng.getrandbits(32), "inputs": rng.random() < 0.5, "kind": "lib", "via": "graph", "order": "lib"}
    ni = rng.randint(1, 5)
    ng = rng.randint(1, 8 if not big else 14)
    cd = G.rand_circuit(rng, ni, ng, max_fanin=4, p_const=0.2, allow_x=rng.random() < 0.4)
    flag = rng.random() < 0.5
    kind = "plain"
    if not flag and rng.random() < 0.4:
        cd = G.add_blackboxes(rng, cd, rng.randint(1, 2), p_unconnected=0.3)
        kind = "pins"
        # a net driven by a blackbox output may feed nothing live: the buffer is dead, the pin is not
        prd = G.cd_preds(cd)
        suc = G.cd_succs(cd)
        tp0 = G.cd_types(cd)
        for x in cd["nodes"]:
            n = x[0]
            if x[1] == "buf" and prd[n] and tp0[prd[n][0]] == "bb_output" and rng.random() < 0.5:
                if all(len(prd[m]) >= 2 for m in suc[n]):
                    x[2] = False
                    cd["edges"] = [e for e in cd["edges"] if e[0] != n]
                    for m in suc[n]:
                        prd[m] = [q for q in prd[m] if q != n]
                    kind = "pins+dead_pin_net"
    nodes = [n for n, _, _ in cd["nodes"]]
    tps = G.cd_types(cd)
    drivers = [n for n in nodes if tps[n] != "bb_input"]
    dead = []
    nd = rng.randint(0, 6 if not big else 10)
    extra_in = 0
    for i in range(nd):
        r = rng.random()
        if r < 0.15:
            n = f"di{extra_in}"
            extra_in += 1
            cd["nodes"].append([n, "input", False])
            drivers.append(n)
            dead.append(n)
            continue
        if r < 0.22:
            n = f"dk{i}"
            cd["nodes"].append([n, rng.choice(["0", "1", "x"]), False])
            drivers.append(n)
            dead.append(n)
            continue
        n = f"d{i}"
        t = rng.choice(G.ALL_GATES)
        ar = 1 if t in G.GATES1 else rng.randint(1, 3)
        mode = rng.choice(["any", "dead_only", "inputs_only", "live_shared"])
        if mode == "dead_only" and dead:
            pool = [x for x in dead if tps.get(x, "input") != "bb_input"]
        elif mode == "inputs_only":
            pool = [x for x in drivers if tps.get(x) == "input" or x.startswith("di")]
        elif mode == "live_shared":
            pool = [x for x in nodes if tps[x] in G.ALL_GATES + ["input"]]
        else:
            pool = drivers
        pool = [x for x in pool if tps.get(x) != "bb_output"] or [x for x in drivers if tps.get(x) != "bb_output"]
        fi = rng.sample(pool, min(ar, len(pool)))
        cd["nodes"].append([n, t, False])
        tps[n] = t
        for f in fi:
            cd["edges"].append([f, n])
        drivers.append(n)
        dead.append(n)
    order = "topological"
    if rng.random() < 0.4:
        cd = G.shuffle_nodes(rng, cd)
        order = "shuffled"
    return {"c": cd, "inputs": flag, "kind": kind, "via": rng.choice(["graph", "api", "sparse"]), "order": order}


def check(case, ctx):
    cg = ctx.cg
    if "lib" in case:
        import random

        from rv.gen import libnets

        cd = libnets.load(cg, case["lib"])
        rr = random.Random(case["seed"])
        # un-mark some outputs: their cones become dead logic
        outs = [x for x in cd["nodes"] if x[2]]
        for x in rr.sample(outs, max(1, len(outs) // 2)):
            x[2] = False
        if cd["bbs"]:
            case = dict(case, inputs=False)
        case = dict(case, c=cd)
        ctx.cur_case = case
        ctx.count(f"lib:{case['lib']}")
    cd = case["c"]
    flag = case["inputs"]
    c = G.build(cg, cd, case["via"])
    if cd["bbs"] and (len(cd["nodes"]) + len(cd["edges"])) % 3 == 0:
        # the same graph wrapped without an instance registry (Circuit(graph=g)): pins are pins by their node type
        c = cg.Circuit(name=c.name, graph=c.graph.copy())
        ctx.count("graph_with_pins_but_no_registry")
    before = Net.of(c)
    ctx.count(f"class:{case['kind']}")
    if before.has_x():
        ctx.count("with_x_constant")
    ctx.count(f"inputs={flag}")
    ctx.count(f"insertion_order:{case.get('order')}")
    roots = set(before.outputs) | {n for n, t in before.types.items() if t == "bb_input"}
    live = reach(before.preds, roots) | roots
    dead = set(before.types) - live
    removable = {n for n in dead if before.types[n] in G.ALL_GATES + ["0", "1", "x"]}
    dead_inputs = {n for n in dead if before.types[n] == "input"}
    if flag:
        removable |= dead_inputs
    if dead_inputs:
        ctx.count("has_dead_input")
        if any(not before.succs[n] for n in dead_inputs):
            ctx.count("has_unloaded_input")
        if any(before.succs[n] for n in dead_inputs):
            ctx.count("has_input_loaded_only_by_dead_logic")
    if any(before.types[n] == "bb_output" for n in dead):
        ctx.count("has_dead_bb_output")
    if not dead:
        ctx.trivial()
    else:
        ctx.count("has_dead_logic")
    ok, r = ctx.call(c.remove_unloaded, inputs=flag) if flag else ctx.call(c.remove_unloaded)
    what = f"remove_unloaded(inputs={flag})"
    if not ok:
        ctx.violation("remove_unloaded_raised", f"{what} raised {r!r}\n{getattr(r, '_tb', '')}")
        return
    ctx.count("cmp:remove_unloaded")
    after = Net.of(c)
    removed = set(before.types) - set(after.types)
    added = set(after.types) - set(before.types)
    if added:
        ctx.violation("remove_unloaded_added", f"{what} added nodes {sorted(added)}")
    wrongly = removed - removable
    missed = removable - removed
    if wrongly:
        kinds = sorted({before.types[n] for n in wrongly})
        live_rm = sorted(wrongly & live)
        if live_rm:
            ctx.violation("removed_live", f"{what} deleted live nodes {live_rm}")
        else:
            ctx.violation("removed_protected", f"{what} deleted {sorted(wrongly)} of types {kinds}, which must never be deleted with inputs={flag}")
    if missed:
        ctx.violation("dead_left", f"{what} left dead nodes {sorted(missed)} (types {sorted({before.types[n] for n in missed})})")
    for n in after.types:
        if n not in before.types:
            continue
        if after.types[n] != before.types[n] or (n in after.outputs) != (n in before.outputs):
            ctx.violation("survivor_changed", f"{what}: type/output mark of {n!r} changed")
            break
        if set(after.preds[n]) != set(before.preds[n]) - removed:
            ctx.violation("survivor_fanin", f"{what}: fan-in of survivor {n!r} changed from {before.preds[n]} to {after.preds[n]}")
            break
        if n in live and set(after.preds[n]) != set(before.preds[n]):
            ctx.violation("live_fanin", f"{what}: live node {n!r} lost fan-in {sorted(set(before.preds[n]) - set(after.preds[n]))}")
            break
    rl = list(r)
    if len(rl) != len(set(rl)):
        ctx.violation("returned_duplicates", f"{what} returned duplicates: {rl}")
    if set(rl) != removed:
        ctx.violation("returned_list", f"{what} returned {sorted(rl)} but removed {sorted(removed)}")
    if after.bbs != before.bbs:
        ctx.violation("registry_changed", f"{what} changed the blackbox registry")
    snap = snapshot(c)
    ok, r2 = ctx.call(c.remove_unloaded, inputs=flag)
    ctx.count("cmp:idempotent")
    if not ok:
        ctx.violation("second_call_raised", f"second {what} raised {r2!r}")
    elif list(r2) or snapshot(c) != snap:
        ctx.violation("not_idempotent", f"second {what} returned {list(r2)} / changed the circuit")


def gates(counters, table, tier):
    need = ["insertion_order:shuffled", "class:pins", "class:pins+dead_pin_net", "with_x_constant", "class:plain", "inputs=True", "inputs=False", "has_dead_logic", "has_unloaded_input", "has_input_loaded_only_by_dead_logic", "has_dead_bb_output", "graph_with_pins_but_no_registry"]
    return [f"{k} seen {counters.get(k, 0)} times" for k in need if counters.get(k, 0) < 10]
