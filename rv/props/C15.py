"""C15 - bench reader and writer are faithful."""
import re

from rv.gen import circuits as G
from rv.oracle import sim
from rv.oracle.sim import Net

RULE = (
    "reader: random bench texts generated from an AST (INPUT/OUTPUT in either case, gate keywords in upper or lower case incl. BUF and BUFF, 1..4 "
    "operands, DFF lines incl. chains in both textual orders, any line order, outputs declared before definition, whitespace around '=', ',' and inside "
    "parentheses, blank and comment lines); the AST's own evaluator gives every net's function of inputs and DFF outputs for ALL valuations and is "
    "compared with the reference simulation of the returned circuit, plus io sets and one `dff` blackbox per DFF line with D/Q attached. writer: random "
    "lint-clean blackbox-free circuits with >=1 input, with and without constant nodes, outputs that are inputs/constants: read-back must have the same "
    "io and output functions. non-trivial = >=2 gates; distinct = text / canonical circuit"
)
BUDGET = {
    "quick": {"workers": 16, "cases": 1200, "secs": 60, "min_cases": 9600},
    "thorough": {"workers": 16, "rounds": 4, "cases": 3200, "secs": 420, "min_cases": 102400},
}
ANCHORS = ["io:bench_to_circuit", "io:circuit_to_bench"]

KW = ["BUF", "BUFF", "NOT", "AND", "NAND", "OR", "NOR", "XOR", "XNOR"]
SEM = {"BUF": "buf", "BUFF": "buf", "NOT": "not", "AND": "and", "NAND": "nand", "OR": "or", "NOR": "nor", "XOR": "xor", "XNOR": "xnor"}


def ws(rng, p=0.4):
    return rng.choice(["", " ", "  ", "\t", " ", "\t", "\f", "\v"]) if rng.random() < p else ""


def wsd(rng):
    """white space inside the parentheses of a declaration: sometimes a line break"""
    return rng.choice(["\n", "\n  ", " \n\t"]) if rng.random() < 0.04 else ws(rng)


def gen_text(rng, big):
    ni = rng.randint(1, 5)
    ng = rng.randint(1, 9 if not big else 16)
    nd = rng.choice([0, 0, 1, 2, 3])
    pool_names = rng.choice([["n", "G", "x_"], ["N", "g", "w"], ["a", "b", "c"], ["_n", "g$", "_"], ["I_", "_G", "q$"]])
    ins = [f"{pool_names[0]}{i}" for i in range(ni)]
    qs = [f"{pool_names[2]}q{i}" for i in range(nd)]
    avail = ins + qs  # DFF outputs may be used before their DFF line appears
    gates = []
    for gi in range(ng):
        name = f"{pool_names[1]}{gi + ni}"
        kw = rng.choice(KW)
        if kw in ("BUF", "BUFF", "NOT"):
            ar = 1
        else:
            ar = rng.choice([1, 2, 2, 2, 3, 4])
        ar = min(ar, len(avail))
        ops = rng.sample(avail, ar)
        gates.append([name, kw, ops])
        avail.append(name)
    dffs = []
    for k, q in enumerate(qs):
        # D nets: gates, inputs, or another flop's Q (chains)
        cand = [g[0] for g in gates] + ins + [x for x in qs if x != q]
        if rng.random() < 0.08:
            cand = [q]  # hold register: q = DFF(q)
        dffs.append([q, rng.choice(cand)])
    outs = rng.sample([g[0] for g in gates], min(len(gates), rng.randint(1, 3)))
    if rng.random() < 0.2:
        outs.append(rng.choice(ins))
    if qs and rng.random() < 0.4:
        outs.append(rng.choice(qs))
    # every gate should be observable somehow; not required by the property
    lower_kw = rng.random() < 0.4
    lower_io = rng.random() < 0.3
    lines = []
    for i in ins:
        lines.append(("in", f"{'input' if lower_io else 'INPUT'}{ws(rng, 0.2)}({wsd(rng)}{i}{wsd(rng)})"))
    for o in dict.fromkeys(outs):
        lines.append(("out", f"{'output' if lower_io else 'OUTPUT'}{ws(rng, 0.2)}({wsd(rng)}{o}{wsd(rng)})"))
    for name, kw, ops in gates:
        k = kw.lower() if (lower_kw if rng.random() < 0.8 else not lower_kw) else kw
        if kw.upper() in ("AND", "NAND", "OR", "NOR") and rng.random() < 0.06:
            ops = list(ops) + [rng.choice(ops)]  # the same net listed twice (idempotent gate types only)
            rng.shuffle(ops)
        wrap = len(ops) > 1 and rng.random() < 0.12  # operand list continued on the next line(s)
        args = ""
        for j, o_ in enumerate(ops):
            if j:
                args += ws(rng) + "," + ("\n" + rng.choice(["  ", "\t", "      "]) if wrap and rng.random() < 0.7 else ws(rng))
            args += o_
        lines.append(("gate", f"{name}{ws(rng, 0.7)}={ws(rng, 0.7)}{k}{ws(rng, 0.15)}({ws(rng)}{args}{ws(rng)})"))
    for q, d in dffs:
        k = "dff" if rng.random() < 0.3 else "DFF"
        lines.append(("dff", f"{q}{ws(rng, 0.7)}={ws(rng, 0.7)}{k}{ws(rng, 0.15)}({ws(rng)}{d}{ws(rng)})"))
    order = rng.choice(["canonical", "shuffled", "shuffled", "outputs_last", "reverse"])
    if order == "shuffled":
        rng.shuffle(lines)
    elif order == "reverse":
        lines.reverse()
    elif order == "outputs_last":
        lines = [l for l in lines if l[0] != "out"] + [l for l in lines if l[0] == "out"]
    text = []
    indent = rng.choice(["", "", "  ", "\t", "mixed"])
    for _, l in lines:
        if rng.random() < 0.15:
            text.append(rng.choice(["", "# a comment line", "#", "   "]))
        lead = rng.choice(["", " ", "\t", "    "]) if indent == "mixed" else indent
        text.append(lead + l + rng.choice(["", "", " ", "\t"]))
    eol = "\r\n" if rng.random() < 0.08 else "\n"  # files written on another platform
    return {"text": "\n".join(text).replace("\n", eol) + (eol if rng.random() < 0.7 else ""), "ast": {"inputs": ins, "outputs": list(dict.fromkeys(outs)), "gates": gates, "dffs": dffs}, "order": order, "indent": indent}


def gen(rng, ctx):
    big = ctx.tier == "thorough"
    if rng.random() < 0.55:
        case = gen_text(rng, big)
        case["op"] = "read"
        return case
    ni = rng.randint(1, 5)
    cd = G.rand_circuit(rng, ni, rng.randint(1, 9 if not big else 15), max_fanin=4, p_const=rng.choice([0.0, 0.5, 0.9]), p_input_output=0.15, p_const_output=0.3, allow_x=rng.random() < 0.03)
    if rng.random() < 0.25:
        names = [n for n, _, _ in cd["nodes"]]
        try:
            cd = G.cd_rename(cd, {v: rng.choice(["_" + v, v + "$", v + "_", v.upper()]) for v in rng.sample(names, min(len(names), rng.randint(1, 3)))})
        except ValueError:
            pass
    if rng.random() < 0.16:
        # the writer's helper for constants is named <input>_not: design nets of that name that are something else - a
        # NOT of another net, or a NAND / NOR / AND ... that does or does not read that input (for several inputs, as
        # the writer picks its input by hash order)
        tp = G.cd_types(cd)
        prd = G.cd_preds(cd)
        ins_ = [n for n, t, _ in cd["nodes"] if t == "input"]
        gts = [n for n, t, _ in cd["nodes"] if t in G.ALL_GATES]
        rng.shuffle(gts)
        only_not = rng.random() < 0.4
        for i_ in ins_:
            if f"{i_}_not" in tp or rng.random() < 0.25:
                continue
            if only_not:
                pool = [g_ for g_ in gts if tp[g_] == "not" and i_ not in prd[g_]]
            else:
                pool = [g_ for g_ in gts if not (tp[g_] == "not" and prd[g_] == [i_])]
                pref = [g_ for g_ in pool if i_ in prd[g_] and len(prd[g_]) >= 2]
                pool = pref if pref and rng.random() < 0.7 else pool
            if pool:
                try:
                    cd = G.cd_rename(cd, {pool[0]: f"{i_}_not"})
                    gts.remove(pool[0])
                    tp = G.cd_types(cd)
                    prd = G.cd_preds(cd)
                except ValueError:
                    pass
    return {"op": "write", "c": cd}


def check_read(case, ctx):
    cg = ctx.cg
    ast = case["ast"]
    ctx.count(f"order:{case['order']}")
    ctx.count(f"indent:{case.get('indent', '')!r}")
    ok, c = ctx.call(cg.io.bench_to_circuit, case["text"], "bt")
    if "\r\n" in case["text"]:
        ctx.count("crlf_line_endings")
    if re.search(r",\s*\n", case["text"]):
        ctx.count("wrapped_operand_list")
        if "\r\n" in case["text"]:
            ctx.count("wrapped_operand_list_crlf")
    if len(case["text"]) % 4 == 0:
        from rv.props._util import repeat_call

        ok, c = repeat_call(ctx, "bench_read", "bench_to_circuit", cg.io.bench_to_circuit, (case["text"], "bt"), {}, (ok, c))
    if not ok:
        ctx.violation("bench_read_raised", f"bench_to_circuit raised {c!r}\n{getattr(c, '_tb', '')}")
        return
    net = Net.of(c)
    ctx.count("cmp:bench_read")
    if len(ast["gates"]) < 2:
        ctx.trivial()
    if ast["dffs"]:
        ctx.count("with_dff")
        qs = {q for q, _ in ast["dffs"]}
        if any(d in qs for _, d in ast["dffs"]):
            ctx.count("dff_chain")
        if any(d == q for q, d in ast["dffs"]):
            ctx.count("dff_self_fed")
    for name, kw, ops in ast["gates"]:
        ctx.table[f"{SEM[kw]}/{len(ops) if len(ops) < 4 else '4+'}"] = ctx.table.get(f"{SEM[kw]}/{len(ops) if len(ops) < 4 else '4+'}", 0) + 1
        if kw == "BUFF":
            ctx.count("kw:BUFF")
    if net.inputs() != set(ast["inputs"]):
        ctx.violation("bench_inputs", f"inputs {sorted(net.inputs())} != declared {sorted(ast['inputs'])}")
        return
    if net.outputs != set(ast["outputs"]):
        ctx.violation("bench_outputs", f"outputs {sorted(net.outputs)} != declared {sorted(ast['outputs'])}")
        return
    # blackboxes
    # one flip-flop blackbox per DFF line, identified by structure (the one whose output pin drives the Q net);
    # instance and pin names are the implementation's choice
    if len(net.bbs) != len(ast["dffs"]):
        ctx.violation("bench_dff_registry", f"{len(net.bbs)} blackbox instances {sorted(net.bbs)} for {len(ast['dffs'])} DFF lines")
        return
    dff_of = {}
    for q, d in ast["dffs"]:
        drv = [p for p in net.preds.get(q, []) if net.types.get(p) == "bb_output"]
        if len(drv) != 1 or net.preds[q] != drv:
            ctx.violation("bench_dff_wiring", f"Q net {q!r} is driven by {net.preds.get(q)}, not by exactly one flip-flop output pin")
            return
        inst = drv[0].split(".")[0]
        if inst in dff_of.values() or inst not in net.bbs:
            ctx.violation("bench_dff_registry", f"flip-flop of {q!r}: instance {inst!r} missing from the registry or shared")
            return
        dff_of[q] = inst
        bbname, bi, bo = net.bbs[inst]
        if len(bi) != 1 or len(bo) != 1:
            ctx.violation("bench_dff_type", f"{inst} has pins {sorted(bi)}/{sorted(bo)}")
            return
        dpin, qpin = f"{inst}.{next(iter(bi))}", f"{inst}.{next(iter(bo))}"
        if net.types.get(dpin) != "bb_input" or net.types.get(qpin) != "bb_output":
            ctx.violation("bench_dff_pins", f"{inst} pins missing or mistyped")
            return
        if net.preds[dpin] != [d] or net.succs[qpin] != [q]:
            ctx.violation("bench_dff_wiring", f"{inst}: data pin driven by {net.preds[dpin]} (text: {d}), output pin drives {net.succs[qpin]} (text: {q})")
            return
    # functions
    qs = [q for q, _ in ast["dffs"]]
    order = list(ast["inputs"]) + qs
    k = len(order)
    mask = (1 << (1 << k)) - 1
    val = {x: sim.var_bits(i, k) for i, x in enumerate(order)}
    pending = list(ast["gates"])
    while pending:
        rest = []
        for name, kw, ops in pending:
            if all(o in val for o in ops):
                val[name] = sim.gate_bits(SEM[kw], [val[o] for o in ops], mask)
            else:
                rest.append([name, kw, ops])
        if len(rest) == len(pending):
            raise RuntimeError("generator produced a cyclic bench AST")
        pending = rest
    fixed = {x: val[x] for x in ast["inputs"]}
    for q in qs:
        fixed[net.preds[q][0]] = val[q]
    try:
        cv, _ = sim.functions(net, [], fixed=fixed, k=k)
    except ValueError as e:
        ctx.violation("bench_not_simulable", f"returned circuit cannot be simulated: {e}")
        return
    for x, v in val.items():
        if x not in cv:
            ctx.violation("bench_net_missing", f"net {x!r} of the text is not a node")
            return
        if cv[x] != v:
            d = cv[x] ^ v
            j = (d & -d).bit_length() - 1
            ctx.violation("bench_net_function", f"net {x!r} = {sim.bit_at(cv[x], j)}, the text denotes {sim.bit_at(v, j)} under {sim.index_valuation(order, j)}")
            return
    for q, d in ast["dffs"]:
        inst = dff_of[q]
        dpin = f"{inst}.{next(iter(net.bbs[inst][1]))}"
        if cv[dpin] != val[d]:
            ctx.violation("bench_dff_d", f"data pin of {inst} does not carry net {d!r}")
            return


def check_write(case, ctx):
    cg = ctx.cg
    cd = case["c"]
    c = G.build(cg, cd, "sparse" if len(cd["nodes"]) % 3 == 0 else "graph")  # sparse: non-outputs may lack the `output` attribute (fast parser, Circuit(graph=g))
    net = Net.of(c)
    has_const = any(t in ("0", "1") for t in net.types.values())
    ctx.count("write:with_constants" if has_const else "write:no_constants")
    if any(o for o in net.outputs if net.types[o] in ("0", "1")):
        ctx.count("write:constant_output")
    if any(o for o in net.outputs if net.types[o] == "input"):
        ctx.count("write:input_output")
    via_file = len(cd["nodes"]) % 4 == 1
    if via_file:
        import os
        import tempfile

        d = tempfile.mkdtemp(prefix="verif-c15-")
        path = os.path.join(d, f"{c.name}.bench")
        if len(cd["edges"]) % 2:
            import pathlib

            path = pathlib.Path(path)
            ctx.count("file_path_as_pathlib")
        ok, text = ctx.call(cg.to_file, c, path, fmt="bench")
        if ok:
            text = open(path).read()
            okf, cf = ctx.call(cg.from_file, path)
            ctx.count("via_bench_file")
            if not okf:
                ctx.violation("bench_file_readback_raised", f"from_file on the written .bench raised {cf!r}")
            elif Net.of(cf).inputs() != net.inputs() or Net.of(cf).outputs != net.outputs or cf.name != c.name:
                ctx.violation("bench_file_roundtrip_io", f"to_file/from_file(.bench): io or name changed ({cf.name!r})")
        import shutil

        shutil.rmtree(d, ignore_errors=True)
    else:
        ok, text = ctx.call(cg.io.circuit_to_bench, c)
    if not ok:
        if net.has_x() and isinstance(text, ValueError):
            ctx.reject("x_constant")
            return
        ctx.violation("bench_write_raised", f"circuit_to_bench raised {text!r}\n{getattr(text, '_tb', '')}")
        return
    if net.has_x():
        ctx.count("x_accepted")
        return
    ok, c2 = ctx.call(cg.io.bench_to_circuit, text, c.name)
    if not ok:
        ctx.violation("bench_readback_raised", f"reading back the written bench raised {c2!r}\n{text}")
        return
    n2 = Net.of(c2)
    ctx.count("cmp:bench_roundtrip")
    if len([t for t in net.types.values() if t in sim.GATES]) < 2:
        ctx.trivial()
    if n2.inputs() != net.inputs() or n2.outputs != net.outputs:
        ctx.violation("bench_roundtrip_io", f"io changed: {sorted(n2.inputs())}/{sorted(n2.outputs)} vs {sorted(net.inputs())}/{sorted(net.outputs)}")
        return
    ins = sorted(net.inputs())
    v1, k = sim.functions(net, ins)
    try:
        v2, _ = sim.functions(n2, ins)
    except ValueError as e:
        ctx.violation("bench_roundtrip_not_simulable", f"read-back circuit cannot be simulated: {e}")
        return
    for o in sorted(net.outputs):
        if v1[o] != v2[o]:
            d = v1[o] ^ v2[o]
            j = (d & -d).bit_length() - 1
            ctx.violation("bench_roundtrip_function", f"output {o!r} ({net.types[o]}) = {sim.bit_at(v2[o], j)} after the round trip, was {sim.bit_at(v1[o], j)} under {sim.index_valuation(ins, j)}")
            return


def check(case, ctx):
    ctx.count(f"op:{case['op']}")
    if case["op"] == "read":
        check_read(case, ctx)
    else:
        check_write(case, ctx)


def gates(counters, table, tier):
    out = []
    for t in ("and", "nand", "or", "nor", "xor", "xnor"):
        for a in ("1", "2", "3"):
            if table.get(f"{t}/{a}", 0) < 3:
                out.append(f"bench gate {t} with {a} operands seen {table.get(f'{t}/{a}', 0)} times")
    for k in ("with_dff", "dff_chain", "kw:BUFF", "order:shuffled", "order:reverse", "write:with_constants", "write:no_constants", "write:constant_output", "write:input_output", "via_bench_file", "cmp:bench_roundtrip", "crlf_line_endings", "wrapped_operand_list", "wrapped_operand_list_crlf"):
        if counters.get(k, 0) < 5:
            out.append(f"{k} seen {counters.get(k, 0)} times")
    return out
