"""C03 - Verilog write -> read round trip preserves the circuit."""
import os
import shutil
import tempfile

from rv.gen import circuits as G
from rv.monitor import snapshot, snapshot_diff
from rv.oracle import sim
from rv.oracle.sim import Net

RULE = (
    "random well-formed circuits: all gate types at fan-in 1..5, constants 0/1 (x structurally), outputs that are inputs or constants, 0..2 blackbox "
    "instances with connected and unconnected pins, escaped identifiers (\\\\a[0], \\\\n-1), names that resemble the reader's temporaries (and_a_b, not_x, g_0); "
    "both behavioral values; to_file/from_file on a scratch directory in a quarter of the cases; read-back must have the same name, inputs, outputs, blackbox "
    "registry and pin nets, the same function at every output and bb_input pin for ALL valuations of inputs and blackbox outputs, and - gate-primitive "
    "form without constants - an identical graph; the argument must be unchanged. non-trivial = >=2 gates; distinct = canonical circuit + flags"
)
BUDGET = {
    "quick": {"workers": 16, "cases": 170, "secs": 60, "min_cases": 1360},
    "thorough": {"workers": 16, "rounds": 4, "cases": 520, "secs": 420, "min_cases": 16640},
}
BUILD_VERDICTS = ("blackbox_definition_changed",)  # the registry is part of this property (see gen.circuits.Misbehaved)
ANCHORS = ["io:circuit_to_verilog", "io:verilog_to_circuit", "io:to_file", "io:from_file"]

BBDEFS = [
    {"name": "ff", "inputs": ["clk", "d"], "outputs": ["q"]},
    {"name": "blk", "inputs": ["a", "b"], "outputs": ["y", "z"]},
    {"name": "one", "inputs": ["p"], "outputs": ["o"]},
]


def setup(ctx):
    ctx.scratch = tempfile.mkdtemp(prefix="verif-c03-")


def teardown(ctx):
    shutil.rmtree(ctx.scratch, ignore_errors=True)


def gen(rng, ctx):
    big = ctx.tier == "thorough"
    if ctx.gen_index == 2 and ctx.index < 2:
        # one gate with 520..700 operands: in assign form the text is one expression of that many terms
        n_ = rng.randint(520, 700)
        cd = G.new_cdict("wide")
        cd["nodes"] += [["i0", "input", False], ["i1", "input", False], ["i2", "input", False]]
        prev = ["i0", "i1", "i2"]
        for j in range(n_):
            cd["nodes"].append([f"t{j}", rng.choice(["not", "buf"]), False])
            cd["edges"].append([prev[j % 3] if j < 3 else f"t{j - 3}", f"t{j}"])
        cd["nodes"].append(["g", rng.choice(["and", "or", "xor", "xnor", "nand"]), True])
        cd["edges"] += [[f"t{j}", "g"] for j in range(n_)]
        return {"c": cd, "kind": "plain+huge_gate", "behavioral": ctx.index == 0, "file": False}
    ni = rng.randint(1, 5)
    ng = rng.randint(1, 9 if not big else 14)
    pconst = rng.choice([0.0, 0.0, 0.4, 0.8])
    cd = G.rand_circuit(rng, ni, ng, max_fanin=5, p_wide=0.3, p_const=pconst, p_input_output=0.15, p_const_output=0.3, allow_x=rng.random() < 0.05, p_large=0.04)
    kind = "plain"
    if rng.random() < 0.4:
        cd = G.add_blackboxes(rng, cd, rng.randint(1, 2), bbdefs=BBDEFS, p_unconnected=rng.choice([0.0, 0.3, 0.5]))
        kind = "bb"
    if rng.random() < 0.08:
        # degenerate interfaces: no primary input (sources are constants / blackbox outputs) or no primary output
        # (all endpoints are blackbox input pins)
        which = rng.choice(["no_inputs", "no_outputs", "no_ports"])
        if which in ("no_inputs", "no_ports"):
            cd["nodes"] = [[n, (rng.choice(["0", "1"]) if t == "input" else t), o] for n, t, o in cd["nodes"]]
        if which in ("no_outputs", "no_ports"):
            if not cd["bbs"]:
                cd = G.add_blackboxes(rng, cd, 1, bbdefs=BBDEFS, p_unconnected=0.0)
            outs_ = [n for n, t, o in cd["nodes"] if o]
            pins_in = [n for n, t, o in cd["nodes"] if t == "bb_input"]
            edges = {tuple(e) for e in cd["edges"]}
            k = 0
            for o_ in outs_:
                # keep the former output loaded: it drives a pin of an extra instance
                inst = f"z{k}"
                k += 1
                cd["bbs"][inst] = {"name": "one", "inputs": ["p"], "outputs": ["o"]}
                cd["nodes"] += [[f"{inst}.p", "bb_input", False], [f"{inst}.o", "bb_output", False]]
                tp = G.cd_types(cd)[o_]
                if tp != "bb_input":
                    cd["edges"].append([o_, f"{inst}.p"])
            cd["nodes"] = [[n, t, False] for n, t, o in cd["nodes"]]
        kind += "+" + which
    if rng.random() < 0.08 and "no_" not in kind:
        cd = G.add_cycles(rng, cd, rng.randint(1, 2))
        kind += "+cyclic"
    names = [n for n, _, _ in cd["nodes"] if "." not in n]
    m = {}
    r = rng.random()
    if r < 0.25:
        for v in rng.sample(names, min(len(names), rng.randint(1, 3))):
            m[v] = rng.choice(["\\" + v + "[0]", "\\" + v + "-1", "\\" + v + "$x", "\\1" + v, "\\" + v + "//a", "\\" + v + "/*", "\\*/" + v, "\\" + v + ");"])
        if rng.random() < 0.3:
            # every operand of the long statements is an escaped name with hyphens (candidates for a line-wrapping writer);
            # a port list and a gate of 10..18 such names make the statements long
            extra = [f"hx{j}" for j in range(rng.randint(10, 18))]
            cd["nodes"] += [[x, "input", False] for x in extra] + [["hw", rng.choice(["and", "nor", "xor"]), True]]
            cd["edges"] += [[x, "hw"] for x in extra]
            names = names + extra + ["hw"]
            kind += "+hyphenated_long_statements"
            for v in names:
                m.setdefault(v, "\\" + rng.choice(["lane", "bus", "ab"]) + "-" + v + rng.choice(["ab", "xy35", "-cd"]))
        kind += "+escaped"
    elif r < 0.33:
        for v in rng.sample(names, min(len(names), rng.randint(1, 3))):
            m[v] = rng.choice([v + "$", v + "$1", "_" + v, "__" + v + "_", v.upper() + "$x"])
        kind += "+dollar_underscore"
    elif r < 0.42:
        # operand names whose '_'-joins coincide (a,b_c / a_b,c) on two gates of the same family
        preds = G.cd_preds(cd)
        tps = G.cd_types(cd)
        fam = {"and": 0, "nand": 0, "or": 1, "nor": 1, "xor": 2, "xnor": 2}
        gs = [n for n in names if tps[n] in fam and len(preds[n]) >= 2]
        pairs = [(g1, g2) for g1 in gs for g2 in gs if g1 < g2 and fam[tps[g1]] == fam[tps[g2]]]
        if pairs:
            g1, g2 = rng.choice(pairs)
            f1 = [x for x in preds[g1] if "." not in x][:2]
            f2 = [x for x in preds[g2] if "." not in x and x not in f1][:2]
            if len(f1) == 2 and len(f2) == 2:
                for old_, new_ in zip(f1 + f2, ["a", "b_c", "a_b", "c"]):
                    m[old_] = new_
                kind += "+ambiguous_joins"
    elif r < 0.55:
        preds = G.cd_preds(cd)
        tps = G.cd_types(cd)
        wide = [n for n in names if tps[n] in G.GATESN and len(preds[n]) >= 3]
        for v in rng.sample(names, min(len(names), rng.randint(1, 2))):
            o = rng.sample(names, 2) if len(names) > 1 else [names[0], names[0]]
            if wide and rng.random() < 0.7:
                # the temporary a reader would create for the first two operands of a wide gate
                g = rng.choice(wide)
                o = rng.sample(preds[g], 2)
                if v in o or v == g:
                    continue
                sym = {"and": "and", "nand": "and", "or": "or", "nor": "or", "xor": "xor", "xnor": "xor"}[tps[g]]
                if rng.random() < 0.5 and o[0] not in m and "." not in o[0]:
                    # ... and one of the operands has a `$` in its name
                    m[o[0]] = o[0] + "$"
                    m[v] = f"{sym}_{o[0]}$_{o[1]}"
                    kind += "+lookalike_with_dollar"
                    # the writer emits the operands in set order: further nets carry the temporaries of the other
                    # operand pairs / orders that involve the renamed operand
                    others_ = [x for x in preds[g] if x != o[0] and "." not in x]
                    combos = [f"{sym}_{o[0]}$_{x}" for x in others_] + [f"{sym}_{x}_{o[0]}$" for x in others_]
                    victims = [x for x in names if x not in m and x != g and x not in preds[g]]
                    rng.shuffle(victims)
                    for vv, nm_ in zip(victims, [c_ for c_ in combos if c_ not in m.values()]):
                        m[vv] = nm_
                    break
                m[v] = f"{sym}_{o[0]}_{o[1]}"
                continue
            m[v] = rng.choice([f"and_{o[0]}_{o[1]}", f"or_{o[0]}_{o[1]}", f"xor_{o[0]}_{o[1]}", f"not_{o[0]}", "g_0", "g_1", f"and_and_{o[0]}_{o[1]}_{v}", "tie0", "tie1", "_w", "W_1"])
        kind += "+lookalike"
    if m:
        try:
            cd = G.cd_rename(cd, m)
        except ValueError:
            pass
    file = rng.random() < 0.25
    stem = None
    if file and rng.random() < 0.5:
        # module names with a dollar sign, and files whose stem is not the module name (the only module is then read):
        # the part in front of the dollar, a proper prefix, something unrelated
        if rng.random() < 0.6:
            cd["name"] = rng.choice(["alu$opt", "top$1", "m$", "core$$x"])
        stem = rng.choice([cd["name"].split("$")[0], cd["name"][:2], "netlist", cd["name"] + "_x", cd["name"].upper()])
        if not stem or stem == cd["name"]:
            stem = "netlist"
    return {"c": cd, "kind": kind, "behavioral": rng.random() < 0.5, "file": file, "stem": stem}


def check(case, ctx):
    cg = ctx.cg
    cd = case["c"]
    beh = case["behavioral"]
    c = G.build(cg, cd, "graph")
    net = Net.of(c)
    for k in case["kind"].split("+"):
        ctx.count(f"class:{k}")
    ctx.count(f"behavioral:{beh}")
    G.gate_arity_table(cd, ctx.table)
    has_const = any(t in ("0", "1", "x") for t in net.types.values())
    if len([t for t in net.types.values() if t in sim.GATES]) < 2:
        ctx.trivial()
    bbtypes = list({id(b): b for b in c.blackboxes.values()}.values())
    snap = snapshot(c)
    what = f"round trip (behavioral={beh}{', file' if case['file'] else ''})"
    if case["file"]:
        # the extension decides the format unless `fmt` is given; an explicit fmt overrides any extension
        ext = [".v", ".v", ".vg", ".txt", ".bench", ""][len(cd["nodes"]) % 6]
        path = os.path.join(ctx.scratch, f"{case.get('stem') or c.name}{ext}")
        if case.get("stem"):
            ctx.count("file_stem_differs_from_module_name")
            if "$" in c.name and case["stem"] == c.name.split("$")[0]:
                ctx.count("file_stem_is_module_name_up_to_dollar")
        if len(cd["edges"]) % 2:
            import pathlib

            path = pathlib.Path(path)  # "str or pathlib.Path"
            ctx.count("file_path_as_pathlib")
        ok, r = ctx.call(cg.to_file, c, path, behavioral=beh)
        c2, text = r, ""
        if ok and ext == ".v":
            ok, c2 = ctx.call(cg.from_file, path, blackboxes=bbtypes)
        elif ok:
            ok, c2 = ctx.call(cg.from_file, path, fmt="verilog", blackboxes=bbtypes)
            ctx.count(f"file_ext_with_explicit_fmt:{ext or 'none'}")
        if os.path.exists(path):
            text = open(path).read()
            os.unlink(path)
        ctx.count("via_file")
    else:
        ok, text = ctx.call(cg.io.circuit_to_verilog, c, behavioral=beh)
        if ok:
            ok, c2 = ctx.call(cg.io.verilog_to_circuit, text, c.name, blackboxes=bbtypes)
        else:
            c2 = text
            text = ""
    if snapshot(c) != snap:
        ctx.violation("argument_modified", f"{what}: the circuit passed to the writer changed: {snapshot_diff(snap, snapshot(c))}")
    if not ok:
        ctx.violation("roundtrip_raised", f"{what} raised {c2!r}\n{getattr(c2, '_tb', '')}\n--- text ---\n{text[:1200]}")
        return
    n2 = Net.of(c2)
    ctx.count("cmp:roundtrip")
    if has_const:
        ctx.count("with_constants")
    if any(not net.preds[n] for n, t in net.types.items() if t == "bb_input") or any(not net.succs[n] for n, t in net.types.items() if t == "bb_output"):
        ctx.count("unconnected_pins")
    if n2.name != net.name:
        ctx.violation("roundtrip_name", f"{what}: name {n2.name!r} != {net.name!r}")
    if n2.inputs() != net.inputs() or n2.outputs != net.outputs:
        ctx.violation("roundtrip_io", f"{what}: io {sorted(n2.inputs())}/{sorted(n2.outputs)} != {sorted(net.inputs())}/{sorted(net.outputs)}")
        return
    if n2.bbs != net.bbs:
        ctx.violation("roundtrip_registry", f"{what}: blackbox registry {n2.bbs} != {net.bbs}")
        return
    for inst, (_, bi, bo) in net.bbs.items():
        for p in bi:
            pin = f"{inst}.{p}"
            if n2.types.get(pin) != "bb_input" or n2.preds[pin] != net.preds[pin]:
                ctx.violation("roundtrip_pin_net", f"{what}: pin {pin} attached to {n2.preds.get(pin)} instead of {net.preds[pin]}")
                return
        for p in bo:
            pin = f"{inst}.{p}"
            if n2.types.get(pin) != "bb_output" or n2.succs[pin] != net.succs[pin]:
                ctx.violation("roundtrip_pin_net", f"{what}: pin {pin} drives {n2.succs.get(pin)} instead of {net.succs[pin]}")
                return
    if not beh and not has_const:
        ctx.count("identical_graph_branch")
        if n2.types != net.types or n2.edges() != net.edges() or n2.outputs != net.outputs:
            dn = {n: (net.types.get(n), n2.types.get(n)) for n in set(net.types) | set(n2.types) if net.types.get(n) != n2.types.get(n)}
            de = (sorted(net.edges() - n2.edges())[:4], sorted(n2.edges() - net.edges())[:4])
            ctx.violation("roundtrip_not_identical", f"{what}: graph differs: nodes {dict(list(dn.items())[:4])} edges lost/added {de}")
            return
    if net.has_x():
        ctx.count("x_structural_only")
        return
    if net.topo() is None:
        # combinational loops: no function of the inputs; gate-primitive form is compared structurally above,
        # assign form by its io, registry and pin nets only
        ctx.count("cyclic_structural_only")
        return
    order = net.free()
    if len(order) > 13:
        ctx.count("skipped:too_many_free")
        return
    if set(n2.free()) != set(order):
        ctx.violation("roundtrip_free", f"{what}: free signals {sorted(n2.free())} != {sorted(order)}")
        return
    v1, k = sim.functions(net, order)
    try:
        v2, _ = sim.functions(n2, order)
    except ValueError as e:
        ctx.violation("roundtrip_not_simulable", f"{what}: {e}")
        return
    targets = sorted(net.outputs) + sorted(n for n, t in net.types.items() if t == "bb_input" and net.preds[n])
    for n in targets:
        if v1[n] != v2[n]:
            d = v1[n] ^ v2[n]
            j = (d & -d).bit_length() - 1
            ctx.violation("roundtrip_function", f"{what}: {n!r} = {sim.bit_at(v2[n], j)} after the round trip, was {sim.bit_at(v1[n], j)} under {sim.index_valuation(order, j)}\n--- text ---\n{text[:1500]}")
            return


def gates(counters, table, tier):
    need = ["class:cyclic", "class:dollar_underscore", "class:no_inputs", "class:no_outputs", "class:no_ports", "behavioral:True", "behavioral:False", "class:bb", "class:escaped", "class:lookalike", "with_constants", "unconnected_pins", "identical_graph_branch", "via_file", "file_stem_differs_from_module_name", "class:hyphenated_long_statements", "file_stem_is_module_name_up_to_dollar"]
    return [f"{k} seen {counters.get(k, 0)} times" for k in need if counters.get(k, 0) < 5]
