"""C12 - graph queries agree with their graph-theoretic definitions."""
import zlib

from rv.gen import circuits as G
from rv.oracle import graphdefs as D
from rv.oracle.sim import Net

RULE = (
    "random circuits (chains, trees, diamonds, wide fan-out, multi-component, star = one hub net with 2..70 sink loads and "
    "no / branch-to-branch / through / below reconvergence, large sizes (deep chains, 17..40-input gates, 66..90 gates, hubs), blackbox pins as "
    "sources/sinks, back edges for cyclic variants); every listed query is compared with an own-DFS "
    "definition on the raw adjacency for single nodes and random node lists; non-trivial = >=4 nodes "
    "and >=3 edges; distinct = canonical (sorted) node/edge lists + query arguments"
)
BUDGET = {
    "quick": {"workers": 16, "cases": 1000, "secs": 60, "min_cases": 8000},
    "thorough": {"workers": 16, "rounds": 4, "cases": 2600, "secs": 420, "min_cases": 83200},
}
SIBLINGS = True  # consecutive cases with identical structure and different gate types
ANCHORS = [
    "circuit:Circuit.fanin",
    "circuit:Circuit.fanout",
    "circuit:Circuit.transitive_fanin",
    "circuit:Circuit.transitive_fanout",
    "circuit:Circuit.fanout_depth",
    "circuit:Circuit.fanin_depth",
    "circuit:Circuit.startpoints",
    "circuit:Circuit.endpoints",
    "circuit:Circuit.reconvergent_fanout_nodes",
    "circuit:Circuit.kcuts",
    "circuit:Circuit.topo_sort",
    "circuit:Circuit.is_cyclic",
    "props:levelize",
]
ASSUMPTIONS = ["networkx DiGraph container (not its algorithms) is trusted"]


def gen(rng, ctx):
    big = ctx.tier == "thorough"
    if rng.random() < (0.004 if big else 0.001) or (ctx.gen_index == 0 and ctx.index < 4):
        from rv.gen import libnets

        return {"lib": libnets.pick(rng, ctx.tier) if ctx.gen_index else ["c17", "s27", "c432", "mux_4"][ctx.index % 4], "seed": rng.getrandbits(32), "k": rng.randint(1, 3)}
    if rng.random() < 0.02:
        return gen_star(rng)
    ni = rng.randint(1, 5 if not big else 7)
    ng = rng.randint(1, 9 if not big else 16)
    cd = G.rand_circuit(rng, ni, ng, max_fanin=5, ensure_loaded=rng.random() < 0.6, p_const=0.2, allow_x=rng.random() < 0.4)
    kind = "dag"
    if rng.random() < 0.3:
        cd = G.add_blackboxes(rng, cd, rng.randint(1, 2), p_unconnected=0.2)
        kind = "dag+bb"
    if rng.random() < 0.25:
        cd = G.add_cycles(rng, cd, rng.randint(1, 3))
        kind = "cyclic" if kind == "dag" else "cyclic+bb"
    nodes = [n for n, _, _ in cd["nodes"]]
    lists = [rng.sample(nodes, rng.randint(1, min(4, len(nodes)))) for _ in range(3)]
    singles = rng.sample(nodes, min(4, len(nodes)))
    if rng.random() < 0.3:
        cd = G.shuffle_nodes(rng, cd)
    edit = None
    if rng.random() < 0.35:
        # in-place edit between two rounds of queries on the SAME Circuit object (stale caches)
        plain = [n for n in nodes if "." not in n]
        edit = rng.choice([["relabel", rng.choice(plain)], ["add_node", rng.choice(plain)], ["remove", rng.choice(plain)], ["connect", rng.choice(plain), rng.choice(plain)], ["rewire", rng.getrandbits(30)], ["rewire", rng.getrandbits(30)]])
    return {"c": cd, "kind": kind, "lists": lists, "singles": singles, "k": rng.randint(1, 4), "via": rng.choice(["graph", "sparse", "api"]), "edit": edit}


def gen_star(rng):
    """One hub net with 2..70 loads that are (mostly) sinks; reconvergence is absent, goes through a common
    successor, or is a wire from one load of the hub into another load of the hub."""
    nb = rng.choice([rng.randint(2, 15), 16, 17, 18, rng.randint(17, 40), rng.randint(41, 70)])
    cd = G.new_cdict("star")
    cd["nodes"].append(["h", "input", False])
    others = [f"p{j}" for j in range(rng.randint(1, 3))]
    for o in others:
        cd["nodes"].append([o, "input", False])
    branches = []
    for j in range(nb):
        t = rng.choice(G.GATESN)
        b = f"b{j}"
        cd["nodes"].append([b, t, True])
        cd["edges"].append(["h", b])
        cd["edges"].append([rng.choice(others), b])
        branches.append(b)
    mode = rng.choice(["none", "branch_to_branch", "branch_to_branch", "through", "below"])
    if mode == "branch_to_branch":
        for _ in range(rng.randint(1, 2)):
            a, b = rng.sample(branches, 2)
            if [a, b] not in cd["edges"] and [b, a] not in cd["edges"]:
                cd["edges"].append([a, b])
    elif mode == "through":
        a, b = rng.sample(branches, 2)
        cd["nodes"].append(["x", "and", True])
        cd["edges"] += [[a, "x"], [b, "x"]]
    elif mode == "below":
        a = rng.choice(branches)
        cd["nodes"] += [["y0", "not", False], ["y1", "buf", False], ["y2", "or", True]]
        cd["edges"] += [[a, "y0"], [a, "y1"], ["y0", "y2"], ["y1", "y2"]]
    loaded = {u for u, _ in cd["edges"]}
    cd["nodes"] = [[n, t, o or n not in loaded] for n, t, o in cd["nodes"]]
    if rng.random() < 0.3:
        cd = G.shuffle_nodes(rng, cd)
    nodes = [n for n, _, _ in cd["nodes"]]
    return {"c": cd, "kind": "star", "star": mode, "lists": [rng.sample(nodes, min(3, len(nodes)))], "singles": ["h"] + rng.sample(nodes, 2), "k": rng.randint(1, 2), "via": rng.choice(["graph", "api"]), "edit": None}


class Watched:
    """A node-set argument together with a copy of its contents: every look at it (repr / final) reports a query that edited it."""

    def __init__(self, obj, viol, ctx):
        self.obj, self.copy, self.viol, self.ctx, self.done = obj, list(obj), viol, ctx, False

    def final(self):
        if not self.done and (type(self.obj)(self.copy) != self.obj or len(self.obj) != len(self.copy)):
            self.done = True
            self.viol("argument_modified", f"a query changed its node-set argument from {sorted(self.copy)} to {sorted(self.obj)}")
        self.ctx.count("cmp:argument_unchanged")

    def __repr__(self):
        return repr(self.obj)


def unw(a):
    if isinstance(a, Watched):
        a.final()
        return a.obj
    return a


def check(case, ctx):
    if "lib" in case:
        import random

        from rv.gen import libnets

        cd = libnets.load(ctx.cg, case["lib"])
        c = G.build(ctx.cg, cd, "graph")
        rr = random.Random(case["seed"])
        nodes = [n for n, _, _ in cd["nodes"]]
        ctx.count(f"lib:{case['lib']}")
        queries({"kind": "lib", "k": case["k"]}, ctx, c, rr.sample(nodes, 4), [rr.sample(nodes, 3) for _ in range(2)], phase="lib:")
        return
    cg = ctx.cg
    cd = case["c"]
    via = case["via"] if ("cyclic" not in case["kind"] or case["via"] == "sparse") else "graph"
    c = G.build(cg, cd, via)
    if cd["bbs"] and (len(cd["nodes"]) + len(cd["edges"])) % 4 == 0:
        # the same graph wrapped without an instance registry (Circuit(graph=g)): the queries are about the graph
        c = cg.Circuit(name=c.name, graph=c.graph.copy())
        ctx.count("graph_with_pins_but_no_registry")
    queries(case, ctx, c, case["singles"], case["lists"])
    ed = case.get("edit")
    if not ed:
        return
    # second round on the same object after an in-place edit through the public API / raw graph
    ren = {}
    try:
        if ed[0] == "relabel":
            ren = {ed[1]: ed[1] + "_rl"}
            c.relabel(ren)
        elif ed[0] == "add_node":
            c.add("zz_new", "buf", fanin=ed[1], output=True)
        elif ed[0] == "rewire":
            # move one wire: same number of nodes and edges, but a loop may appear or disappear
            import random

            rr = random.Random(ed[1])
            edges = sorted(c.edges())
            multi = sorted(n for n in c.nodes() if c.type(n) in G.GATESN)
            if not edges or not multi:
                return
            u, v = rr.choice(edges)
            tgt = rr.choice(multi)
            src = rr.choice(sorted(n for n in c.nodes() if c.type(n) in G.ALL_GATES))
            if (src, tgt) in c.edges() or src == tgt:
                return
            c.disconnect(u, v)
            c.connect(src, tgt)
        elif ed[0] == "remove":
            c.remove(ed[1])
        else:
            c.connect(ed[1], ed[2])
    except Exception:  # noqa: BLE001 - an edit the library refuses is not the subject here
        return
    ctx.count(f"requery_after:{ed[0]}")
    live = set(c.graph.nodes)
    f = lambda n: ren.get(n, n)
    singles = [f(n) for n in case["singles"] if f(n) in live]
    lists = [[f(n) for n in l if f(n) in live] for l in case["lists"]]
    lists = [l for l in lists if l]
    if singles:
        queries(case, ctx, c, singles, lists, phase="after_edit:")


def queries(case, ctx, c, singles, lists, phase=""):
    cg = ctx.cg
    net = Net.of(c)
    preds, succs = net.preds, net.succs
    types = net.types
    if len(types) < 4 or len(net.edges()) < 3:
        ctx.trivial()
    if not phase:
        ctx.count(f"class:{case['kind']}")
        if net.has_x():
            ctx.count("with_x_constant")
        if case.get("star"):
            ctx.count(f"star:{case['star']}")
    cyc = D.has_cycle(succs)
    viol = ctx.violation

    def cmp(op, got, want, arg=None):
        ctx.count(f"cmp:{op}")
        if got != want:
            viol(phase + op, f"{phase}{op}({arg!r}) returned {sorted(got) if isinstance(got, (set, frozenset)) else got!r}, definition gives {sorted(want) if isinstance(want, (set, frozenset)) else want!r}")

    # is_cyclic
    ok, r = ctx.call(c.is_cyclic)
    if not ok:
        viol("is_cyclic", f"raised {r!r}")
    else:
        cmp("is_cyclic", r, cyc)
    ctx.count("cyclic" if cyc else "acyclic")

    sp_all = {n for n, t in types.items() if t in ("input", "bb_output")}
    ep_all = set(net.outputs) | {n for n, t in types.items() if t == "bb_input"}
    args = [(n, [n]) for n in singles] + [(l, l) for l in lists]
    for arg, ns in args:
        tag = "1" if isinstance(arg, str) else "L"
        if isinstance(arg, str):
            a = arg
        else:
            # one container object reused for every query, as a caller would; the queries must leave it alone
            kindc = (list, set, tuple, frozenset)[zlib.crc32(repr(sorted(arg)).encode()) % 4]
            a = Watched(kindc(arg), viol, ctx)
            ctx.count(f"nodes_as:{kindc.__name__}")
        for op, adj in (("fanin", preds), ("fanout", succs)):
            ok, r = ctx.call(getattr(c, op), unw(a))
            want = set()
            for n in ns:
                want |= set(adj[n])
            if not ok:
                viol(op, f"{op}({a!r}) raised {r!r}")
            else:
                cmp(op + tag, r, want, a)
        anc, desc = set(), set()
        for n in ns:
            anc |= D.proper_reach(preds, n)
            desc |= D.proper_reach(succs, n)
        for op, want in (("transitive_fanin", anc), ("transitive_fanout", desc)):
            ok, r = ctx.call(getattr(c, op), unw(a))
            if not ok:
                viol(op, f"{op}({a!r}) raised {r!r}")
            else:
                cmp(op + tag, r, want, a)
        for op, want in (("startpoints", (set(ns) | anc) & sp_all), ("endpoints", (set(ns) | desc) & ep_all)):
            ok, r = ctx.call(getattr(c, op), unw(a))
            if not ok:
                viol(op, f"{op}({a!r}) raised {r!r}")
            else:
                cmp(op + tag, r, want, a)
        for op, adj in (("fanout_depth", succs), ("fanin_depth", preds)):
            ok, r = ctx.call(getattr(c, op), unw(a))
            if cyc:
                ctx.count("cmp:depth_rejects_cyclic")
                if ok or not isinstance(r, ValueError):
                    viol(op + "_cyclic", f"{op}({a!r}) on a cyclic circuit gave {r!r} instead of ValueError")
            elif not ok:
                viol(op, f"{op}({a!r}) raised {r!r}")
            else:
                cmp(op + tag, r, D.longest_from(adj, ns), a)
        if isinstance(a, Watched):
            a.final()
    # whole-circuit startpoints / endpoints
    for op, want in (("startpoints", sp_all), ("endpoints", ep_all)):
        ok, r = ctx.call(getattr(c, op))
        if not ok:
            viol(op, f"{op}() raised {r!r}")
        else:
            cmp(op + "0", r, want)

    # levelize
    ok, r = ctx.call(cg.props.levelize, c)
    undriven = [n for n, t in types.items() if t not in ("input", "0", "1", "x", "bb_output") and not preds[n]]
    if cyc:
        ctx.count("cmp:levelize_rejects_cyclic")
        if ok or not isinstance(r, ValueError):
            viol("levelize_cyclic", f"levelize on a cyclic circuit gave {r!r} instead of ValueError")
    elif undriven and not ok:
        ctx.count("skipped:levelize_undriven")  # the pinned levelize refuses circuits with a gate that has no fan-in
    elif undriven:
        # it answered: a gate without fan-in is a source of the graph (level 0)
        cmp("levelize_with_undriven_gate", dict(r), D.levels(preds))
    elif not ok:
        viol("levelize", f"levelize raised {r!r} on an acyclic lint-clean circuit")
    else:
        cmp("levelize", dict(r), D.levels(preds))

    # topo_sort
    ok, r = ctx.call(lambda: list(c.topo_sort()))
    if cyc:
        ctx.count("cmp:topo_cyclic")
        # the definition only constrains acyclic circuits
    elif not ok:
        viol("topo_sort", f"topo_sort raised {r!r}")
    else:
        ctx.count("cmp:topo_sort")
        if not D.is_topological(r, preds):
            viol("topo_sort", f"{r!r} is not a topological order")

    # reconvergent fan-out
    ok, r = ctx.call(lambda: list(c.reconvergent_fanout_nodes()))
    want = D.reconvergent(succs)
    if not ok:
        viol("reconvergent_fanout_nodes", f"raised {r!r}")
    else:
        ctx.count("reconv:nonempty" if want else "reconv:empty")
        if len(r) != len(set(r)):
            viol("reconvergent_fanout_nodes", f"duplicates in {r!r}")
        cmp("reconvergent_fanout_nodes", set(r), want)
        ok2, r2 = ctx.call(c.has_reconvergent_fanout)
        if not ok2 or r2 != bool(want):
            viol("has_reconvergent_fanout", f"gave {r2!r}, definition gives {bool(want)}")

    # kcuts
    if not cyc:
        k = case["k"]
        for n in singles[:3]:
            ok, r = ctx.call(c.kcuts, n, k)
            if not ok:
                viol("kcuts", f"kcuts({n!r},{k}) raised {r!r}")
                continue
            ctx.count("cmp:kcuts")
            ctx.count("kcuts:sets", len(r))
            for cut in r:
                cut = set(cut)
                if cut == {n}:
                    continue
                ctx.count("kcuts:nontrivial_sets")
                if len(cut) > k:
                    viol("kcuts_size", f"kcuts({n!r},{k}) contains {sorted(cut)} with more than k nodes")
                if not cut <= set(types):
                    viol("kcuts_nodes", f"kcuts({n!r},{k}) contains non-nodes {sorted(cut)}")
                elif not D.separates(preds, n, cut):
                    viol("kcuts_sep", f"kcuts({n!r},{k}) contains {sorted(cut)} which does not separate {n!r} from all sources")


def gates(counters, table, tier):
    need = ["requery_after:rewire", "requery_after:relabel", "requery_after:connect", "class:dag", "class:dag+bb", "class:cyclic", "cmp:levelize", "cmp:kcuts", "reconv:nonempty", "reconv:empty", "cmp:depth_rejects_cyclic", "cmp:fanout_depthL", "cmp:fanin_depth1", "kcuts:nontrivial_sets", "star:branch_to_branch", "star:none", "star:through", "graph_with_pins_but_no_registry", "with_x_constant"]
    return [f"class {k} never observed" for k in need if counters.get(k, 0) < 5]
