"""Fan-out to worker processes, aggregation, verdict, evidence, known findings.

exit 0 = held on everything observed (KNOWN-FINDING lines allowed)
exit 1 = VIOLATION property=<id> replay=<path>
exit 2 = INCONCLUSIVE (coverage gate failed / worker died / wrong tree)
"""
import argparse
import fcntl
import hashlib
import importlib
import json
import os
import shutil
import subprocess
import sys
import tempfile
import time

HERE = os.path.dirname(os.path.abspath(__file__))
VERIF = os.path.dirname(HERE)
PY = "/venv/bin/python"
WHEELS = "/opt/veriftools/wheels"
NCPU = 16


def ensure_deps():
    """Install the SAT back end (z3 wheel) beside the harness, offline, once."""
    deps = os.path.join(VERIF, ".deps")
    marker = os.path.join(deps, ".ok")
    if os.path.exists(marker):
        return True
    os.makedirs(deps, exist_ok=True)
    with open(os.path.join(VERIF, ".deps.lock"), "w") as lk:
        fcntl.flock(lk, fcntl.LOCK_EX)
        if os.path.exists(marker):
            return True
        r = subprocess.run(
            [PY, "-m", "pip", "install", "-q", "--no-index", "--find-links", WHEELS, "--target", deps, "z3-solver"],
            capture_output=True,
            text=True,
        )
        if r.returncode == 0:
            open(marker, "w").write("ok\n")
            return True
        sys.stderr.write("deps install failed (falling back to pure-Python DPLL):\n" + r.stderr[-2000:])
        return False


def hashseed(seed, index):
    h = hashlib.sha256(f"{seed}:{index}".encode()).digest()
    return 1 + int.from_bytes(h[:4], "big") % 4294967294


def repo_state(repo):
    def git(*a):
        try:
            return subprocess.run(["git", "-C", repo, *a], capture_output=True, text=True, timeout=30).stdout
        except Exception:  # noqa: BLE001
            return ""

    head = git("rev-parse", "HEAD").strip()
    diff = git("diff", "HEAD", "--", "circuitgraph/*.py", "circuitgraph/parsing")
    return head, hashlib.sha1(diff.encode()).hexdigest()[:12] if diff else "clean"


def run_workers(prop, tier, seed, budget, repo, replay=None, replay_hashseed=None):
    tmp = tempfile.mkdtemp(prefix=f"verif-{prop}-")
    results, dead = [], []
    try:
        if replay:
            jobs = [(0, replay_hashseed)]
        else:
            n = budget["workers"] * budget.get("rounds", 1)
            jobs = [(i, hashseed(seed, i)) for i in range(n)]
        pending = list(jobs)
        running = []
        while pending or running:
            while pending and len(running) < NCPU:
                idx, hs = pending.pop(0)
                out = os.path.join(tmp, f"w{idx}.json")
                env = dict(os.environ)
                env.update(
                    PYTHONHASHSEED=str(hs),
                    PYTHONDONTWRITEBYTECODE="1",
                    VERIF_REPO=repo,
                    PYTHONPATH=VERIF,
                    CIRCUITGRAPH_VERIF="1",
                )
                cmd = [PY, "-m", "rv.worker", "--prop", prop, "--tier", tier, "--seed", str(seed), "--index", str(idx), "--out", out]
                if replay:
                    cmd += ["--replay", replay]
                errf = open(os.path.join(tmp, f"w{idx}.err"), "w")
                p = subprocess.Popen(cmd, cwd=VERIF, env=env, stdout=errf, stderr=errf)
                running.append((p, idx, hs, out, time.time(), errf))
            time.sleep(0.05)
            still = []
            for p, idx, hs, out, t0, errf in running:
                rc = p.poll()
                limit = budget["secs"] * 3 + 120
                if rc is None and time.time() - t0 > limit:
                    p.kill()
                    p.wait()
                    rc = -9
                    dead.append(f"worker {idx} (hashseed {hs}) exceeded the {limit}s watchdog")
                    errf.close()
                    continue
                if rc is None:
                    still.append((p, idx, hs, out, t0, errf))
                    continue
                errf.close()
                err = open(errf.name).read()
                if os.path.exists(out):
                    with open(out) as f:
                        r = json.load(f)
                    r["hashseed"] = hs
                    r["stderr_tail"] = err[-1500:] if err.strip() else ""
                    results.append(r)
                else:
                    dead.append(f"worker {idx} (hashseed {hs}) died rc={rc}: {err[-1500:]}")
            running = still
    finally:
        shutil.rmtree(tmp, ignore_errors=True)
    results.sort(key=lambda r: r["index"])
    return results, dead


def main(argv=None):
    ap = argparse.ArgumentParser()
    ap.add_argument("prop")
    ap.add_argument("--tier", default=None)
    ap.add_argument("--replay")
    ap.add_argument("--seed", type=int, default=None)
    args = ap.parse_args(argv)
    prop = args.prop
    tier = os.environ.get("VERIF_TIER") or args.tier or "quick"
    if tier not in ("quick", "thorough"):
        tier = "quick"
    seed = args.seed if args.seed is not None else int(os.environ.get("VERIF_SEED", "0") or 0)
    repo = os.path.realpath(os.environ.get("VERIF_REPO", "/repo"))
    t0 = time.time()
    ensure_deps()
    sys.path.insert(0, VERIF)
    # budget is read from the property module without importing circuitgraph
    mod = importlib.import_module(f"rv.props.{prop}")
    budget = dict(mod.BUDGET[tier])
    from rv import known

    if args.replay:
        with open(args.replay) as f:
            rp = json.load(f)
        results, dead = run_workers(prop, tier, seed, budget, repo, replay=args.replay, replay_hashseed=rp.get("hashseed", 0))
        bad = 0
        for r in results:
            for v in r["violations"]:
                bad += 1
                print(f"replayed violation kind={v['kind']}: {v['detail']}")
            for e in r["errors"] + r["inconclusive"]:
                print("harness/inconclusive:", e)
        for d in dead:
            print(d)
        if bad:
            print(f"VIOLATION property={prop} replay={args.replay}")
            return 1
        print(f"replay of {args.replay}: no violation reproduced")
        return 0

    results, dead = run_workers(prop, tier, seed, budget, repo)

    # ------------------------------------------------------------------ aggregate
    counters, table, calls = {}, {}, {}
    hashes = set()
    cases = 0
    samples, errors, inconcl = [], [], list(dead)
    violations = []
    reach = {}
    cut = 0
    slow = 0
    slow_cases = []
    solver = {}
    for r in results:
        cases += r["cases"]
        hashes.update(r["hashes"])
        for k, v in r["counters"].items():
            counters[k] = counters.get(k, 0) + v
        for k, v in r.get("table", {}).items():
            table[k] = table.get(k, 0) + v
        for k, v in r.get("calls", {}).items():
            calls[k] = calls.get(k, 0) + v
        for k, v in (r.get("solver_stats") or {}).items():
            if isinstance(v, int):
                solver[k] = solver.get(k, 0) + v
            else:
                solver[k] = v
        if len(samples) < 4:
            samples += r["samples"][:1]
        errors += [f"[worker {r['index']} hashseed {r['hashseed']}] {e}" for e in r["errors"]]
        inconcl += r["inconclusive"]
        if "cut_by_watchdog_after_cases" in r:
            cut += 1
        slow = max(slow, r.get("slowest_case_s", 0))
        if "slowest_case" in r and len(slow_cases) < 2:
            slow_cases.append({"seconds": r["slowest_case_s"], "hashseed": r["hashseed"], "case": r["slowest_case"]})
        for v in r["violations"]:
            v = dict(v)
            v["hashseed"] = r["hashseed"]
            violations.append(v)
        for a, d in r.get("reach", {}).items():
            if "error" in d:
                reach.setdefault(a, {"lines": set(), "hit": set(), "error": d["error"]})
                continue
            e = reach.setdefault(a, {"lines": set(), "hit": set()})
            e["lines"].update(d["lines"])
            e["hit"].update(d["hit"])
    total_viol = sum(r.get("violations_total", 0) for r in results)

    # ------------------------------------------------------------------ known findings
    kf = known.load()
    known_hits = {}
    unknown = []
    for v in violations:
        fid = known.classify(prop, v, kf)
        if fid:
            known_hits.setdefault(fid, []).append(v)
        else:
            unknown.append(v)
    for fid, vs in sorted(known_hits.items()):
        ent = known.entry(kf, fid)
        print(f"KNOWN-FINDING: property={prop} {fid}: {ent['mechanism']} ({len(vs)} occurrences this run, e.g. {(vs[0]['detail'].splitlines() or [''])[0][:160]})")

    # ------------------------------------------------------------------ gates
    gate_fail = []
    if hasattr(mod, "gates"):
        gate_fail = list(mod.gates(counters, table, tier) or [])
    if errors:
        inconcl.append(f"{len(errors)} harness errors, first: {errors[0][:1500]}")
    if cases == 0:
        inconcl.append("no case was executed")
    nto = counters.get("case_timeouts", 0)
    if nto > max(3, cases // 200):
        inconcl.append(f"{nto} of {cases} cases hit the per-case watchdog")
    min_cases = budget.get("min_cases", 1)
    if cases < min_cases:
        inconcl.append(f"only {cases} cases executed (< {min_cases}); watchdog cut {cut} workers")
    inconcl += [f"coverage gate: {g}" for g in gate_fail]
    reach_json = {}
    for a, d in reach.items():
        tot, hit = len(d["lines"]), len(d["hit"])
        reach_json[a] = {"executable_lines": tot, "reached": hit, "missed": sorted(d["lines"] - d["hit"])[:30]}
        if "error" in d:
            reach_json[a]["error"] = d["error"]
    anchored_calls = {}
    for a in getattr(mod, "ANCHORS", []):
        m, q = a.split(":")
        for k, n in calls.items():
            f, qq = k.split(":", 1)
            if f.replace(os.sep, ".").rsplit(".py", 1)[0] == m and qq == q:
                anchored_calls[a] = n
        if a not in anchored_calls and a in reach and "error" not in reach[a]:
            anchored_calls[a] = 0
    for a in getattr(mod, "MUST_CALL", getattr(mod, "ANCHORS", [])):
        if anchored_calls.get(a, 0) == 0:
            inconcl.append(f"monitor never saw a call of {a}")

    # ------------------------------------------------------------------ replays + verdict
    os.makedirs(os.path.join(VERIF, "replays"), exist_ok=True)
    printed = 0
    seen_kinds = {}
    for v in unknown:
        k = v["kind"]
        seen_kinds[k] = seen_kinds.get(k, 0) + 1
        if seen_kinds[k] > 3 or printed >= 10:
            continue
        body = {"property": prop, "kind": v["kind"], "detail": v["detail"], "case": v["case"], "hashseed": v["hashseed"], "tier": tier, "seed": seed}
        h = hashlib.sha1(json.dumps(body, sort_keys=True, default=str).encode()).hexdigest()[:12]
        path = os.path.join(VERIF, "replays", f"{prop}-{h}.json")
        with open(path, "w") as f:
            json.dump(body, f, indent=1, default=str)
        print(f"VIOLATION property={prop} replay={path}")
        print(f"  kind={v['kind']} hashseed={v['hashseed']}: {v['detail'][:400]}")
        printed += 1

    head, diffh = repo_state(repo)
    wall = round(time.time() - t0, 2)
    ev = {
        "property_id": prop,
        "tier": tier,
        "seed": seed,
        "level": "exploration",
        "wall_s": wall,
        "violations": len(unknown),
        "coverage": {
            "evaluations": cases,
            "distinct_nontrivial": len(hashes),
            "rule": mod.RULE,
            "samples": samples[:4] or [{"note": "no sample recorded"}],
            "exhaustive": False,
            "workers": len(results),
            "hash_seeds": [r["hashseed"] for r in results][:64],
            "class_counts": dict(sorted(counters.items())),
            "gate_arity_table": dict(sorted(table.items())),
            "monitor_events": anchored_calls,
            "library_calls_observed": sum(calls.values()),
            "library_functions_observed": len(calls),
            "anchored_line_reach": reach_json,
            "solver_standin": solver,
            "rejected_by_library": counters.get("rejected_by_library", 0),
            "known_findings_hit": {k: len(v) for k, v in known_hits.items()},
            "violations_total_including_known": total_viol,
            "inconclusive_reasons": inconcl,
            "workers_cut_by_watchdog": cut,
            "slowest_case_s": slow,
            "slow_cases": slow_cases,
            "repo": repo,
            "repo_head": head,
            "repo_diff_hash": diffh,
        },
        "assumptions": list(getattr(mod, "ASSUMPTIONS", []))
        + [
            "reference semantics of DESIGN.md section 2 (self-tested at worker start)",
            "python-sat is absent: sat.py runs against the vendored stand-in (z3 behind pysat's API; every model re-checked)",
            "decides only the executions produced by this run's generators",
        ],
    }
    if ev["coverage"]["distinct_nontrivial"] < 2 or cases < 1:
        # keep the file schema-valid but make the emptiness explicit
        ev["coverage"]["note"] = "too few cases: run is inconclusive"
    # evidence/ holds what was observed on /repo itself; runs against a scratch tree (VERIF_REPO, used for
    # seeded changes and mutants) are kept apart so that they can never be mistaken for it
    evdir = os.path.join(VERIF, "evidence") if repo == os.path.realpath("/repo") else os.path.join(VERIF, ".scratch", "evidence")
    os.makedirs(evdir, exist_ok=True)
    with open(os.path.join(evdir, f"{prop}.json"), "w") as f:
        json.dump(ev, f, indent=1, default=str)

    print(
        f"{prop} tier={tier} seed={seed}: {cases} cases, {len(hashes)} distinct non-trivial, "
        f"{len(results)} workers/hash orders, {sum(calls.values())} library calls observed, "
        f"{len(unknown)} violations, {sum(len(v) for v in known_hits.values())} known-finding hits, {wall}s"
    )
    if unknown:
        return 1
    if inconcl:
        for m in inconcl[:8]:
            print(f"INCONCLUSIVE property={prop}: {m}")
        return 2
    return 0


if __name__ == "__main__":
    sys.exit(main())
