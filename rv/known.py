"""Known findings: mechanism classifiers over serialised cases (DESIGN 1.4).

/verif/known_findings.json is never written at run time.  An *open* entry
suppresses a violation only if (a) the violation's kind is one the entry lists
and (b) the entry's classifier predicate holds for the serialised case.
``fixed`` entries suppress nothing.
"""
import json
import os

HERE = os.path.dirname(os.path.abspath(__file__))
PATH = os.path.join(os.path.dirname(HERE), "known_findings.json")

CLASSIFIERS = {}


def classifier(fn):
    CLASSIFIERS[fn.__name__] = fn
    return fn


def load():
    try:
        with open(PATH) as f:
            return json.load(f)
    except FileNotFoundError:
        return {"findings": []}


def entry(kf, fid):
    for e in kf["findings"]:
        if e["id"] == fid:
            return e
    return None


def classify(prop, v, kf):
    for e in kf["findings"]:
        if e.get("status") != "open" or e["property"] != prop:
            continue
        if v["kind"] not in e.get("kinds", []):
            continue
        fn = CLASSIFIERS.get(e["classifier"])
        if fn is None:
            continue
        try:
            if fn(v["case"], v):
                return e["id"]
        except Exception:  # noqa: BLE001 - a broken classifier must not hide anything
            continue
    return None


# ---------------------------------------------------------------------------
# classifiers (pure predicates over the serialised case + failure signature)
# ---------------------------------------------------------------------------


def _cones(cd):
    preds = {n: [] for n, _, _ in cd["nodes"]}
    for u, v in cd["edges"]:
        preds[v].append(u)
    cones = {}
    for n, t, o in cd["nodes"]:
        if not o:
            continue
        seen, st = {n}, [n]
        while st:
            x = st.pop()
            for p in preds[x]:
                if p not in seen:
                    seen.add(p)
                    st.append(p)
        cones[n] = seen
    return cones


@classifier
def supergates_overlapping_output_cones(case, v):
    """List-form supergates on a circuit with >=2 outputs whose cones share a gate:
    the per-output supergates overlap and depend on each other cyclically, so the
    library's final topological sort raises NetworkXUnfeasible."""
    if case.get("supercircuit"):
        return False
    if "NetworkXUnfeasible" not in v["detail"]:
        return False
    cd = case["c"]
    types = {n: t for n, t, _ in cd["nodes"]}
    cones = _cones(cd)
    outs = sorted(cones)
    for i in range(len(outs)):
        for j in range(i + 1, len(outs)):
            shared = cones[outs[i]] & cones[outs[j]]
            if any(types[n] not in ("input", "0", "1", "x") for n in shared):
                return True
    return False


def _dup_parity_nets(nl):
    """Nets defined by a parity gate / expression that lists the same net twice."""
    out = set()

    def has_dup(e):
        if e[0] in ("xor", "xnor") and e[2][0] in ("id", "c") and e[2] == e[3]:
            return True
        if e[0] == "not":
            return has_dup(e[2])
        if e[0] == "tern":
            return any(has_dup(x) for x in e[1:])
        if e[0] in ("and", "or", "xor", "xnor"):
            return has_dup(e[2]) or has_dup(e[3])
        return False

    for s in nl["stmts"]:
        if s["k"] == "prim" and s["gate"] in ("xor", "xnor"):
            for inst, o, ops in s["insts"]:
                ids = [tuple(x) for x in ops]
                if len(ids) != len(set(ids)):
                    out.add(o)
        elif s["k"] == "assign":
            for lhs, e in s["assigns"]:
                if has_dup(e):
                    out.add(lhs)
    return out


@classifier
def parity_gate_with_repeated_operand(case, v):
    """`xor g(o, a, a)` / `assign o = a ^ a`: the graph model holds one edge a->gate, so
    the gate is read as a 1-input parity gate (o = a, resp. ~a) instead of 0 (resp. 1)."""
    nl = case.get("nl")
    if not nl:
        return False
    d = v["detail"]
    return any(d.startswith(f"net {n!r} ") for n in _dup_parity_nets(nl))
