"""Known findings: mechanism classifiers over serialised cases (DESIGN 1.4).

/verif/known_findings.json is never written at run time.  An *open* entry
suppresses a violation only if (a) the violation's kind is one the entry lists
and (b) the entry's classifier predicate holds for the serialised case.
``fixed`` entries suppress nothing.
"""
import json
import os

HERE = os.path.dirname(os.path.abspath(__file__))
PATH = os.path.join(os.path.dirname(HERE), "known_findings.json")

CLASSIFIERS = {}


def classifier(fn):
    CLASSIFIERS[fn.__name__] = fn
    return fn


def load():
    try:
        with open(PATH) as f:
            return json.load(f)
    except FileNotFoundError:
        return {"findings": []}


def entry(kf, fid):
    for e in kf["findings"]:
        if e["id"] == fid:
            return e
    return None


def classify(prop, v, kf):
    for e in kf["findings"]:
        if e.get("status") != "open" or e["property"] != prop:
            continue
        if v["kind"] not in e.get("kinds", []):
            continue
        fn = CLASSIFIERS.get(e["classifier"])
        if fn is None:
            continue
        try:
            if fn(v["case"], v):
                return e["id"]
        except Exception:  # noqa: BLE001 - a broken classifier must not hide anything
            continue
    return None


# ---------------------------------------------------------------------------
# classifiers (pure predicates over the serialised case + failure signature)
# ---------------------------------------------------------------------------


def _cones(cd):
    preds = {n: [] for n, _, _ in cd["nodes"]}
    for u, v in cd["edges"]:
        preds[v].append(u)
    cones = {}
    for n, t, o in cd["nodes"]:
        if not o:
            continue
        seen, st = {n}, [n]
        while st:
            x = st.pop()
            for p in preds[x]:
                if p not in seen:
                    seen.add(p)
                    st.append(p)
        cones[n] = seen
    return cones


@classifier
def supergates_overlapping_output_cones(case, v):
    """List-form supergates on a circuit with >=2 outputs whose cones share a gate:
    the per-output supergates overlap and depend on each other cyclically, so the
    library's final topological sort raises NetworkXUnfeasible."""
    if case.get("supercircuit"):
        return False
    if "NetworkXUnfeasible" not in v["detail"]:
        return False
    cd = case["c"]
    types = {n: t for n, t, _ in cd["nodes"]}
    cones = _cones(cd)
    outs = sorted(cones)
    for i in range(len(outs)):
        for j in range(i + 1, len(outs)):
            shared = cones[outs[i]] & cones[outs[j]]
            if any(types[n] not in ("input", "0", "1", "x") for n in shared):
                return True
    return False
