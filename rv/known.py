"""Known findings: mechanism classifiers over serialised cases (DESIGN 1.4).

/verif/known_findings.json is never written at run time.  An *open* entry
suppresses a violation only if (a) the violation's kind is one the entry lists
and (b) the entry's classifier predicate holds for the serialised case.
``fixed`` entries suppress nothing.
"""
import json
import os

HERE = os.path.dirname(os.path.abspath(__file__))
PATH = os.path.join(os.path.dirname(HERE), "known_findings.json")

CLASSIFIERS = {}


def classifier(fn):
    CLASSIFIERS[fn.__name__] = fn
    return fn


def load():
    try:
        with open(PATH) as f:
            return json.load(f)
    except FileNotFoundError:
        return {"findings": []}


def entry(kf, fid):
    for e in kf["findings"]:
        if e["id"] == fid:
            return e
    return None


def classify(prop, v, kf):
    for e in kf["findings"]:
        if e.get("status") != "open" or e["property"] != prop:
            continue
        if v["kind"] not in e.get("kinds", []):
            continue
        fn = CLASSIFIERS.get(e["classifier"])
        if fn is None:
            continue
        try:
            if fn(v["case"], v):
                return e["id"]
        except Exception:  # noqa: BLE001 - a broken classifier must not hide anything
            continue
    return None
