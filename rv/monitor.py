"""Run-time probes shared by all property workers.

* call probe  : sys.monitoring PY_START on code objects of the repository under
                test -> calls per function (internal calls included).
* line probe  : sys.monitoring LINE, DISABLEd after the first hit of each
                location -> set of executed lines per file.
* snapshot    : canonical, order-independent deep fingerprint of a Circuit from
                raw graph data (used by C06/C07/C16/C19 and as side conditions).
* identity    : ids of every mutable container reachable from a Circuit (aliasing).
"""
import os
import sys

TOOL = 3  # a free tool id (0=debugger,1=coverage,2=profiler are conventional)


class Probe:
    def __init__(self, repo_pkg_dir):
        self.root = os.path.realpath(repo_pkg_dir) + os.sep
        self.calls = {}
        self.lines = {}
        self.enabled = False

    def _mine(self, code):
        fn = code.co_filename
        return fn.startswith(self.root)

    def start(self):
        mon = sys.monitoring
        try:
            mon.use_tool_id(TOOL, "verif-probe")
        except ValueError:
            pass
        ev = mon.events

        def on_start(code, offset):
            if code.co_filename.startswith(self.root):
                k = (code.co_filename[len(self.root):], code.co_qualname)
                self.calls[k] = self.calls.get(k, 0) + 1
                return None
            return mon.DISABLE

        def on_line(code, line):
            fn = code.co_filename
            if fn.startswith(self.root):
                self.lines.setdefault(fn[len(self.root):], set()).add(line)
            return mon.DISABLE

        mon.register_callback(TOOL, ev.PY_START, on_start)
        mon.register_callback(TOOL, ev.LINE, on_line)
        mon.set_events(TOOL, ev.PY_START | ev.LINE)
        self.enabled = True

    def stop(self):
        if self.enabled:
            sys.monitoring.set_events(TOOL, 0)
            self.enabled = False

    def calls_json(self):
        return {f"{f}:{q}": n for (f, q), n in sorted(self.calls.items())}

    def lines_json(self):
        return {f: sorted(ls) for f, ls in sorted(self.lines.items())}


def function_lines(fn):
    """Executable line numbers of a function (nested code objects included)."""
    code = getattr(fn, "__code__", None)
    if code is None:
        return set()
    out = set()
    stack = [code]
    while stack:
        c = stack.pop()
        for _, _, ln in c.co_lines():
            if ln is not None and ln != c.co_firstlineno:
                out.add(ln)
        for k in c.co_consts:
            if hasattr(k, "co_lines"):
                stack.append(k)
    return out


# ---------------------------------------------------------------------------
# deep snapshot
# ---------------------------------------------------------------------------


def _freeze(v):
    if isinstance(v, dict):
        return tuple(sorted((repr(k), _freeze(x)) for k, x in v.items()))
    if isinstance(v, (list, tuple)):
        return tuple(_freeze(x) for x in v)
    if isinstance(v, (set, frozenset)):
        return tuple(sorted(repr(x) for x in v))
    return v if isinstance(v, (str, int, float, bool, type(None))) else repr(v)


def snapshot(c):
    """Canonical fingerprint of a Circuit; no library method is called."""
    g = c.graph
    nodes = tuple(sorted((repr(n), _freeze(dict(g.nodes[n]))) for n in g.nodes))
    edges = tuple(sorted((repr(u), repr(v), _freeze(dict(d))) for u, v, d in g.edges(data=True)))
    bbs = tuple(
        sorted(
            (repr(k), repr(getattr(b, "name", None)), tuple(sorted(getattr(b, "input_set", ()))), tuple(sorted(getattr(b, "output_set", ()))))
            for k, b in c.blackboxes.items()
        )
    )
    gattr = _freeze(dict(g.graph))
    return (c.name, nodes, edges, bbs, gattr)


def snapshot_diff(a, b):
    """Human-readable first differences between two snapshots."""
    out = []
    if a[0] != b[0]:
        out.append(f"name {a[0]!r} -> {b[0]!r}")
    for label, i in (("nodes", 1), ("edges", 2), ("blackboxes", 3)):
        sa, sb = set(a[i]), set(b[i])
        if sa != sb:
            out.append(f"{label}: removed/changed {sorted(sa - sb)[:4]} added/changed {sorted(sb - sa)[:4]}")
    if a[4] != b[4]:
        out.append("graph attributes changed")
    return "; ".join(out)


def mutable_ids(c):
    """ids of every mutable container reachable from a Circuit object."""
    g = c.graph
    ids = {id(c.blackboxes): "blackboxes dict", id(g): "graph object"}
    for attr in ("_node", "_adj", "_pred", "_succ", "graph"):
        d = getattr(g, attr, None)
        if d is not None:
            ids[id(d)] = f"graph.{attr}"
    for n in g._node:
        ids[id(g._node[n])] = f"attr dict of node {n!r}"
    for n, nb in g._adj.items():
        ids[id(nb)] = f"adjacency dict of {n!r}"
        for m, d in nb.items():
            ids[id(d)] = f"edge attr dict {n!r}->{m!r}"
    for n, nb in g._pred.items():
        ids[id(nb)] = f"pred dict of {n!r}"
    return ids
