"""Bundled library netlists as realistic workloads (thorough tier, a few in quick).

Circuits are parsed once per worker process and handed out as fresh copies built from
raw graph data (so that a mutation by one case cannot leak into the next).  Functional
comparisons on these circuits use *sampled* valuations: every free signal gets a random
2^k-bit word, i.e. 2^k random vectors are evaluated at once.
"""
import random

from rv.gen import circuits as G
from rv.oracle import sim

SMALL = ["c17", "s27", "mux_2", "mux_4", "c17_gates"]
MEDIUM = ["c432", "c499", "c880", "c1355", "c1908"]
_cache = {}


def load(cg, name):
    """cdict of a bundled netlist (parsed by the library's full parser once per process)."""
    if name not in _cache:
        import os

        # from_file (module name inferred): from_lib("mux_4") fails on the pinned tree because the file's
        # module is called MUX - not a subject of any of the twenty properties
        path = os.path.join(os.path.dirname(cg.__file__), "netlists", name + ".v")
        bbs = [cg.BlackBox("ff", ["CK", "D"], ["Q"])]
        _cache[name] = G.to_cdict(cg.from_file(path, blackboxes=bbs))
    cd = _cache[name]
    return {"name": cd["name"], "nodes": [list(x) for x in cd["nodes"]], "edges": [list(e) for e in cd["edges"]], "bbs": {k: dict(v) for k, v in cd["bbs"].items()}}


def pick(rng, tier):
    return rng.choice(SMALL + MEDIUM) if tier == "thorough" else rng.choice(SMALL + ["c432"])


def sampled_functions(net, seed, k=8, fixed=None):
    """Random 2^k-bit word per free signal -> values of all nodes for 2^k random vectors."""
    rr = random.Random(seed)
    fx = {}
    for n in net.free():
        fx[n] = rr.getrandbits(1 << k)
    if fixed:
        fx.update(fixed)
    vals, _ = sim.functions(net, [], fixed=fx, k=k)
    return vals, fx


def compare_sampled(ctx, kind, before, after, nodes, seed, what, k=8, extra_fixed=None):
    vb, fx = sampled_functions(before, seed, k)
    fx2 = dict(fx)
    if extra_fixed:
        fx2.update(extra_fixed)
    for n in after.free():
        if n not in fx2:
            ctx.violation(kind + "_free", f"{what}: result has a new free signal {n!r}")
            return False
    try:
        va, _ = sim.functions(after, [], fixed=fx2, k=k)
    except ValueError as e:
        ctx.violation(kind + "_not_simulable", f"{what}: {e}")
        return False
    for n in nodes:
        if n not in va:
            ctx.violation(kind + "_node_lost", f"{what}: node {n!r} missing from the result")
            return False
        if va[n] != vb[n]:
            ctx.violation(kind + "_function", f"{what}: node {n!r} differs on {sim.popcount(va[n] ^ vb[n])} of {1 << k} sampled vectors")
            return False
    ctx.count("lib_vectors", 1 << k)
    return True
