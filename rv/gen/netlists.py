"""Random structural-Verilog netlists with their own evaluator (DESIGN 3.2).

A netlist case is a JSON-serialisable dict:

  {"name": str, "inputs": [...], "outputs": [...], "wires": [...],
   "stmts": [ {"k":"prim","gate":g,"insts":[[inst,out,[operands]],...]},
              {"k":"assign","assigns":[[lhs, expr], ...]},
              {"k":"bb","type":t,"inst":i,"pins":[[pin, net|None|"__omit__"],...]} ],
   "bbdefs": {type: {"inputs":[..],"outputs":[..]}},
   "text": str}

expr ::= ["id", n] | ["c", 0|1] | ["not", sym, e] | [op, sym, e1, e2] (op in and/or/xor/xnor)
       | ["tern", c, a, b]          (top level only)

``evaluate`` gives every driven net as a bit-parallel function of the free
signals (inputs, then connected blackbox output nets).
"""
from rv.oracle.sim import var_bits

LEVEL = {"tern": 0, "or": 1, "xor": 2, "xnor": 2, "and": 3, "not": 4, "id": 5, "c": 5}
SYMS = {"and": ["&"], "or": ["|"], "xor": ["^"], "xnor": ["~^", "^~"], "not": ["~", "!"]}
KEYWORDS = {"module", "endmodule", "input", "output", "wire", "assign", "and", "or", "not", "nand", "nor", "xor", "xnor", "buf", "inout", "reg"}


# ---------------------------------------------------------------------------
# expressions
# ---------------------------------------------------------------------------


def rand_expr(rng, nets, depth, ops_counter=None, allow_const=True):
    if depth <= 0 or rng.random() < 0.25:
        if allow_const and rng.random() < 0.08:
            return ["c", rng.randint(0, 1)]
        return ["id", rng.choice(nets)]
    op = rng.choice(["and", "or", "xor", "xnor", "not", "and", "or", "xor"])
    if ops_counter is not None:
        ops_counter[op] = ops_counter.get(op, 0) + 1
    if op == "not":
        return ["not", rng.choice(SYMS["not"]), rand_expr(rng, nets, depth - 1, ops_counter, allow_const)]
    a = rand_expr(rng, nets, depth - 1, ops_counter, allow_const)
    b = rand_expr(rng, nets, depth - 1, ops_counter, allow_const)
    if op in ("xor", "xnor") and a == b and a[0] in ("id", "c"):
        # `x ^ x` / `1'b1 ^ 1'b1`: a graph cannot hold two edges x->gate; generated only on request (dup_parity)
        others = [n for n in nets if a[0] == "c" or n != a[1]]
        if others:
            b = ["id", rng.choice(others)]
        else:
            op = "and"
    return [op, rng.choice(SYMS[op]), a, b]


def expr_nets(e, out=None):
    out = out if out is not None else []
    if e[0] == "id":
        out.append(e[1])
    elif e[0] == "c":
        pass
    elif e[0] == "not":
        expr_nets(e[2], out)
    elif e[0] == "tern":
        for x in e[1:]:
            expr_nets(x, out)
    else:
        expr_nets(e[2], out)
        expr_nets(e[3], out)
    return out


def eval_expr(e, val, mask):
    k = e[0]
    if k == "id":
        return val[e[1]]
    if k == "c":
        return mask if e[1] else 0
    if k == "not":
        return eval_expr(e[2], val, mask) ^ mask
    if k == "tern":
        c, a, b = (eval_expr(x, val, mask) for x in e[1:])
        return (c & a) | ((c ^ mask) & b)
    a, b = eval_expr(e[2], val, mask), eval_expr(e[3], val, mask)
    if k == "and":
        return a & b
    if k == "or":
        return a | b
    if k == "xor":
        return a ^ b
    if k == "xnor":
        return (a ^ b) ^ mask
    raise ValueError(k)


def print_expr(rng, e, stats=None, ctx_level=0, right=False, top=True):
    """Token list; omits redundant parentheses with probability 1/2, adds
    redundant ones with probability 1/4 (never changes the parse tree)."""
    k = e[0]
    lv = LEVEL[k]

    def wrap(toks, need):
        if need or rng.random() < 0.25:
            return ["("] + toks + [")"]
        return toks

    if k == "id":
        t = [e[1]]
        return wrap(t, False) if not top and rng.random() < 0.1 else t
    if k == "c":
        return [rng.choice(["1'b0", "1'h0"]) if e[1] == 0 else rng.choice(["1'b1", "1'h1"])]
    if k == "tern":
        # the condition is an or-level expression; the arms may be conditionals themselves (right-associative)
        toks = print_expr(rng, e[1], stats, 1, False, False) + ["?"] + print_expr(rng, e[2], stats, 0, False, False) + [":"] + print_expr(rng, e[3], stats, 0, False, False)
        if ctx_level > 0 or (not top and rng.random() < 0.3):
            return ["("] + toks + [")"]
        return toks
    if k == "not":
        sub = e[2]
        inner = print_expr(rng, sub, stats, 0, False, False)
        if sub[0] in ("id", "c"):
            body = inner if inner[0] != "(" and rng.random() < 0.85 else (inner if inner[0] == "(" else ["("] + inner + [")"])
        elif sub[0] == "not" and rng.random() < 0.6:
            body = print_expr(rng, sub, stats, 4, False, True)  # `~~a`, `!~a`: a unary operator on a unary expression
            if stats is not None:
                stats["stacked_unary"] = stats.get("stacked_unary", 0) + 1
        else:
            body = ["("] + print_expr(rng, sub, stats, 1, False, False) + [")"]
        toks = [e[1]] + body
    else:
        left = print_expr(rng, e[2], stats, lv, False, False)
        rightt = print_expr(rng, e[3], stats, lv, True, False)
        toks = left + [e[1]] + rightt
    # does the context require parentheses?
    need = lv < ctx_level or (right and lv == ctx_level and lv < 4)
    if not need and stats is not None and not top and lv < 4 and ctx_level <= lv:
        stats[f"bare:{k}_in_level{ctx_level}"] = stats.get(f"bare:{k}_in_level{ctx_level}", 0) + 1
    if need:
        return ["("] + toks + [")"]
    if not top and rng.random() < 0.25:
        return ["("] + toks + [")"]
    return toks


# ---------------------------------------------------------------------------
# netlist generation
# ---------------------------------------------------------------------------

DEFAULT_BBS = {
    "ff": {"inputs": ["clk", "d"], "outputs": ["q"]},
    "blk": {"inputs": ["a", "b"], "outputs": ["y", "z"]},
    "CELL1": {"inputs": ["A"], "outputs": ["Z"]},
    "obs": {"inputs": ["q", "Z"], "outputs": ["d"]},  # pin names of `ff` / `CELL1` with the opposite direction
    "BUF": {"inputs": ["A"], "outputs": ["Y"]},  # a cell, not the primitive `buf`
    "Nor": {"inputs": ["A", "B"], "outputs": ["Y"]},
    "dffx": {"inputs": ["D", "RST$N"], "outputs": ["Q", "Q$N"]},  # `$` in pin names
}


def name_pool(rng, style):
    if style == "plain":
        return lambda kind, i: {"in": f"i{i}", "w": f"n{i}", "inst": f"g{i}", "bb": f"u{i}"}[kind]
    if style == "caps":
        return lambda kind, i: {"in": f"IN{i}", "w": f"N_{i}", "inst": f"U{i}", "bb": f"X{i}"}[kind]
    if style == "under":
        return lambda kind, i: {"in": f"_a{i}", "w": f"w_{i}_", "inst": f"_g{i}", "bb": f"bb_{i}"}[kind]
    if style == "ambig":
        # names whose '_'-joins coincide: a + b_c == a_b + c
        pool_in = ["a", "b_c", "a_b", "c", "b", "c_d", "b_c_d", "d", "a_b_c"]
        return lambda kind, i: {"in": pool_in[i % len(pool_in)] + ("" if i < len(pool_in) else str(i)), "w": ["x", "x_y", "y", "y_z", "z", "x_y_z"][i % 6] + ("" if i < 6 else str(i)), "inst": f"g{i}", "bb": f"u{i}"}[kind]
    if style == "dollar":
        return lambda kind, i: {"in": f"i${i}", "w": f"n{i}$", "inst": f"g{i}", "bb": f"u{i}"}[kind]
    raise ValueError(style)


def gen_netlist(rng, mode="full", max_stmts=10, max_inputs=5, depth=4, lookalike=0.0, escaped=0.0, nbb=None, stats=None, neg=None):
    """mode: 'full' (C02) or 'fast' (the fast parser's documented subset, C14)."""
    fast = mode == "fast"
    style = rng.choice(["plain", "plain", "caps", "under", "dollar", "ambig"])
    nm = name_pool(rng, style)
    ni = rng.randint(1, max_inputs)
    inputs = [nm("in", i) for i in range(ni)]
    nets = list(inputs)  # nets with a value
    wires, stmts = [], []
    bbdefs = {}
    free_bb = []
    nstm = rng.randint(1, max_stmts)
    wi = [0]
    gi = [0]
    used_names = set(inputs)

    def fresh_wire():
        while True:
            w = nm("w", wi[0])
            wi[0] += 1
            if w not in used_names:
                used_names.add(w)
                return w

    def fresh_inst(kind="inst"):
        while True:
            g = nm(kind, gi[0])
            gi[0] += 1
            if g not in used_names:
                used_names.add(g)
                return g

    if nbb is None:
        nbb = rng.choice([0, 0, 0, 1, 2, 3])
    bb_budget = nbb
    for si in range(nstm):
        r = rng.random()
        if bb_budget and r < 0.25:
            bb_budget -= 1
            t = rng.choice(sorted(bbdefs)) if bbdefs and rng.random() < 0.6 else rng.choice(sorted(DEFAULT_BBS))
            bbdefs[t] = DEFAULT_BBS[t]
            inst = fresh_inst("bb")
            pins = []
            for p in DEFAULT_BBS[t]["inputs"]:
                q = rng.random()
                if q < 0.12:
                    pins.append([p, None])
                elif q < 0.2:
                    pins.append([p, "__omit__"])
                elif q < 0.27:
                    pins.append([p, ["c", rng.randint(0, 1)]])
                else:
                    pins.append([p, rng.choice(nets)])
            for p in DEFAULT_BBS[t]["outputs"]:
                q = rng.random()
                if q < 0.15:
                    pins.append([p, None])
                elif q < 0.22:
                    pins.append([p, "__omit__"])
                else:
                    w = fresh_wire()
                    wires.append(w)
                    pins.append([p, w])
                    nets.append(w)
                    free_bb.append([f"{inst}.{p}", w])
            rng.shuffle(pins)
            stmts.append({"k": "bb", "type": t, "inst": inst, "pins": pins})
            continue
        if r < 0.6 or fast and r < 0.85:
            gate = rng.choice(["and", "nand", "or", "nor", "xor", "xnor", "buf", "not"])
            ninst = 1 if fast or rng.random() < 0.75 else rng.randint(2, 3)
            insts = []
            for _ in range(ninst):
                ar = 1 if gate in ("buf", "not") else rng.choice([1, 2, 2, 2, 3, 4])
                ops = []
                for _ in range(ar):
                    if rng.random() < 0.07:
                        ops.append(["c", rng.randint(0, 1)])
                    else:
                        ops.append(["id", rng.choice(nets)])
                # no duplicate operand nets: a graph cannot hold parallel edges (documented model)
                seen, uo = set(), []
                for o in ops:
                    key = tuple(o)
                    if key not in seen:
                        seen.add(key)
                        uo.append(o)
                w = fresh_wire()
                wires.append(w)
                insts.append([fresh_inst(), w, uo])
            for _, w, _ in insts:
                nets.append(w)
            stmts.append({"k": "prim", "gate": gate, "insts": insts})
            continue
        # assign
        nas = 1 if fast or rng.random() < 0.8 else 2
        assigns = []
        for _ in range(nas):
            if fast:
                e = ["c", rng.randint(0, 1)] if rng.random() < 0.3 else ["id", rng.choice(nets)]
            else:
                e = rand_expr(rng, nets, rng.randint(0, depth), stats)
                if rng.random() < 0.02:
                    # one operator chained over 17..30 operands (left-deep; neighbours differ)
                    op = rng.choice(["and", "or", "xor"])
                    e, last = None, None
                    for _ in range(rng.randint(17, 30)):
                        cands = [n for n in nets if n != last] or nets
                        last = rng.choice(cands)
                        leaf = ["id", last]
                        if rng.random() < 0.2:
                            leaf = ["not", "~", leaf]
                        e = leaf if e is None else [op, SYMS[op][0], e, leaf]
                    if stats is not None:
                        stats["wide_chain"] = stats.get("wide_chain", 0) + 1
                if rng.random() < 0.15:
                    e = ["tern", rand_expr(rng, nets, 2, stats), rand_expr(rng, nets, 2, stats), rand_expr(rng, nets, 2, stats)]
                    if stats is not None:
                        stats["tern"] = stats.get("tern", 0) + 1
                    r_ = rng.random()
                    if r_ < 0.35:
                        # a conditional inside a conditional (either arm), or as an operand of another operator
                        inner = ["tern", rand_expr(rng, nets, 1, stats), rand_expr(rng, nets, 1, stats), rand_expr(rng, nets, 1, stats)]
                        form = rng.choice(["else_arm", "then_arm", "operand", "negated"])
                        if form == "else_arm":
                            e[3] = inner
                        elif form == "then_arm":
                            e[2] = inner
                        elif form == "operand":
                            e = [rng.choice(["and", "or", "xor"]), None, e, ["id", rng.choice(nets)]]
                            e[1] = SYMS[e[0]][0]
                        else:
                            e = ["not", rng.choice(SYMS["not"]), e]
                        if stats is not None:
                            stats["nested_tern"] = stats.get("nested_tern", 0) + 1
                if rng.random() < 0.2 and stmts:
                    # repeat a sub-expression used before
                    prev = [a[1] for s in stmts if s["k"] == "assign" for a in s["assigns"] if a[1][0] not in ("id", "c", "tern")]
                    if prev:
                        pe = rng.choice(prev)
                        e = rng.choice([pe, ["or", "|", pe, ["id", rng.choice(nets)]], ["and", "&", ["id", rng.choice(nets)], pe]])
                        if stats is not None:
                            stats["repeated_subexpr"] = stats.get("repeated_subexpr", 0) + 1
            w = fresh_wire()
            wires.append(w)
            assigns.append([w, e])
        for w, _ in assigns:
            nets.append(w)
        stmts.append({"k": "assign", "assigns": assigns})
    driven = [w for w in wires]
    if not driven:
        w = fresh_wire()
        wires.append(w)
        stmts.append({"k": "prim", "gate": "buf", "insts": [[fresh_inst(), w, [["id", inputs[0]]]]]})
        driven = [w]
    outputs = rng.sample(driven, min(len(driven), rng.randint(1, 3)))
    nl = {"name": rng.choice(["top", "m1", "Top_2", "top", "m1", "Top_2", "top$1", "m$x"]), "inputs": inputs, "outputs": outputs, "wires": [w for w in wires if w not in outputs], "stmts": stmts, "bbdefs": bbdefs, "free_bb": free_bb, "mode": mode}
    renames = {}
    if lookalike and rng.random() < lookalike and not fast:
        renames = lookalike_renames(rng, nl)
    if escaped and rng.random() < escaped and not fast:
        cands = [w for w in nl["wires"] + nl["outputs"] + nl["inputs"] if w not in renames]
        for w in rng.sample(cands, min(len(cands), rng.randint(1, 2))):
            renames[w] = rng.choice(["\\" + w + "[1]", "\\" + w + "-x", "\\3" + w, "\\" + w + "/q", "\\" + w + "//0", "\\" + w + "/*", "\\" + w + "*/", "\\lane-" + w + "ab"])
    if fast and rng.random() < 0.1:
        # nets whose names consist of the radix letters and a binary digit (d0, b1, h1, bd0 ...)
        pool = [x for x in ["d0", "d1", "b0", "b1", "h0", "h1", "bd0", "hb1", "dd1"] if x not in used_names]
        cands = [w for w in nl["wires"] + nl["outputs"] + nl["inputs"] if w not in renames]
        for w, new in zip(rng.sample(cands, min(len(cands), rng.randint(1, 3))), rng.sample(pool, min(len(pool), 3))):
            renames[w] = new
    if not fast and rng.random() < 0.02:
        # net names of 60..100 characters
        cands = [w for w in nl["wires"] + nl["outputs"] + nl["inputs"] if w not in renames]
        for j, w in enumerate(rng.sample(cands, min(len(cands), rng.randint(1, 3)))):
            renames[w] = w + "_" + "".join(rng.choice("abcdefghxyz0123456789") for _ in range(rng.randint(60, 100))) + str(j)
        if stats is not None:
            stats["long_names"] = 1
    if renames:
        nl = rename_nets(nl, renames)
        nl["renamed"] = sorted(renames.values())
    return nl


def temp_name(e):
    """Name the library's transformer gives the node built for expression e
    (before uniquification) - used only to construct hostile look-alike names."""
    k = e[0]
    if k == "id":
        return e[1]
    if k == "c":
        return "tie_1" if e[1] else "tie_0"
    if k == "not":
        return "not_" + temp_name(e[2])
    if k == "tern":
        return "mux_o_" + "_".join(temp_name(x) for x in e[1:])
    return f"{k}_{temp_name(e[2])}_{temp_name(e[3])}"


def lookalike_renames(rng, nl):
    """Give some declared net the name of a temporary the expression transformer
    would synthesise, or of the reader's constant nodes."""
    cands = []
    for s in nl["stmts"]:
        if s["k"] != "assign":
            continue
        for lhs, e in s["assigns"]:
            stack = [e]
            while stack:
                x = stack.pop()
                if x[0] in ("and", "or", "xor", "xnor"):
                    cands.append(temp_name(x))
                    stack += [x[2], x[3]]
                elif x[0] == "not":
                    cands.append(temp_name(x))
                    stack.append(x[2])
                elif x[0] == "tern":
                    io = "_".join(temp_name(y) for y in x[1:])
                    cands += [f"mux_n_{io}", f"mux_a0_{io}", f"mux_a1_{io}", f"mux_o_{io}"]
                    stack += list(x[1:])
    cands = [c for c in cands if len(c) < 60]
    cands += ["tie_0", "tie_1", "tie_x", "tie0", "tie1"]
    victims = [w for w in nl["wires"] + nl["outputs"] + nl["inputs"]]
    out = {}
    for v in rng.sample(victims, min(len(victims), rng.randint(1, 2))):
        c = rng.choice(cands)
        if c not in out.values() and c not in victims:
            out[v] = c
    if out and rng.random() < 0.4:
        # the first alternative a uniquifier would try is taken as well
        base = rng.choice(sorted(out.values()))
        rest = [v for v in victims if v not in out]
        if rest and base + "_0" not in victims and base + "_0" not in out.values():
            out[rng.choice(rest)] = base + "_0"
    return out


def rename_nets(nl, m):
    f = lambda n: m.get(n, n)

    def re(e):
        if e[0] == "id":
            return ["id", f(e[1])]
        if e[0] == "c":
            return e
        if e[0] == "not":
            return ["not", e[1], re(e[2])]
        if e[0] == "tern":
            return ["tern"] + [re(x) for x in e[1:]]
        return [e[0], e[1], re(e[2]), re(e[3])]

    stmts = []
    for s in nl["stmts"]:
        if s["k"] == "prim":
            stmts.append({"k": "prim", "gate": s["gate"], "insts": [[i, f(o), [re(x) for x in ops]] for i, o, ops in s["insts"]]})
        elif s["k"] == "assign":
            stmts.append({"k": "assign", "assigns": [[f(l), re(e)] for l, e in s["assigns"]]})
        else:
            stmts.append({"k": "bb", "type": s["type"], "inst": s["inst"], "pins": [[p, (re(n) if isinstance(n, list) else (f(n) if isinstance(n, str) and n != "__omit__" else n))] for p, n in s["pins"]]})
    out = dict(nl)
    out.update(inputs=[f(x) for x in nl["inputs"]], outputs=[f(x) for x in nl["outputs"]], wires=[f(x) for x in nl["wires"]], stmts=stmts, free_bb=[[p, f(w)] for p, w in nl["free_bb"]])
    return out


# ---------------------------------------------------------------------------
# text
# ---------------------------------------------------------------------------

COMMENT_WORDS = ["note", "x", "gate", "todo", "1'b0", "a & b", "and g(a,b)", "wire w", "(", ")", "assign", "//", "http://a.b/c", "/ /", "* /", "endmodule", "module old (a, b);", "end of module", "\\esc"]
LINE_COMMENT_WORDS = COMMENT_WORDS + ["/*", "*/", "/* x */"]


def render(rng, nl, layout="free", comments=0.0, shuffle=True, split_decl=None):
    """layout 'free': random whitespace between all tokens; 'writer': one statement per line.
    The module header is always closed by ');' and, in fast mode, so is every instance."""
    fast = nl["mode"] == "fast"

    def wsp(mand=False):
        r = rng.random()
        if layout == "writer":
            return " " if mand else ""
        if r < 0.55:
            return " " if mand else ""
        if r < 0.8:
            return " "
        if r < 0.86:
            return "\n  "
        if r < 0.9:
            return "\n"  # a bare line break as the only separator
        if r < 0.95:
            return "\t"
        return "  \n"

    def comment():
        if comments and rng.random() < comments:
            if rng.random() < 0.5:
                body = " ".join(rng.choice(LINE_COMMENT_WORDS) for _ in range(rng.randint(0, 3)))
                return f" // {body}\n"
            body = " ".join(rng.choice(COMMENT_WORDS) for _ in range(rng.randint(0, 3)))
            r_ = rng.random()
            if r_ < 0.15:
                return f" /* {body} **/ "  # the text ends in a star
            if r_ < 0.25:
                return " /*****/ " if rng.random() < 0.5 else f" /** {body} **/ "
            return f" /* {body} */ "
        return ""

    def join(tokens, with_comments=True):
        """Join tokens with random whitespace; mandatory between word-like tokens
        and after escaped identifiers."""
        out = []
        prev = None
        for t in tokens:
            if t == ");":  # glued
                if prev is not None and prev.startswith("\\"):
                    out.append(" ")
                out.append(t)
                prev = t
                continue
            if prev is not None:
                wordy = lambda x: x[0].isalnum() or x[0] in "_\\" or x[0] == "'"
                mand = (wordy(prev) and wordy(t)) or prev.startswith("\\") or (prev in ("~", "^", "~^", "^~", "!", "&", "|") and t in ("~", "^", "~^", "^~"))
                out.append(wsp(mand) or (" " if mand else ""))
                if with_comments:
                    out.append(comment())
            out.append(t)
            prev = t
        return "".join(out)

    def etoks(e):
        return print_expr(rng, e, nl.get("_stats"))

    def operand(o):
        if isinstance(o, list):
            if o[0] == "id":
                return [o[1]]
            return [rng.choice(["1'b0"] + ([] if fast else ["1'h0"])) if o[1] == 0 else rng.choice(["1'b1"] + ([] if fast else ["1'h1"]))]
        return [o]

    items = []
    decls = []
    split = rng.random() < 0.5 if split_decl is None else split_decl

    def decl(kw, names):
        if not names:
            return
        if split:
            for n in names:
                decls.append([kw, n, ";"])
        else:
            toks = [kw]
            for i, n in enumerate(names):
                toks += ([","] if i else []) + [n]
            decls.append(toks + [";"])

    decl("input", nl["inputs"])
    decl("output", nl["outputs"])
    undeclared = set()
    wires = list(nl["wires"])
    if not fast and rng.random() < 0.15 and wires:
        undeclared = set(rng.sample(wires, 1))  # implicit nets are legal Verilog
    decl("wire", [w for w in wires if w not in undeclared])
    if rng.random() < 0.3 and not fast:
        decl("wire", nl["outputs"][:1])
    bb_open = {}
    for s in nl["stmts"]:
        if s["k"] == "prim":
            toks = [s["gate"]]
            for j, (inst, out, ops) in enumerate(s["insts"]):
                if j:
                    toks.append(",")
                toks += [inst, "(", out]
                for o in ops:
                    toks += [","] + operand(o)
                toks.append(")")
            toks.append(";")
            items.append(toks)
        elif s["k"] == "assign":
            toks = ["assign"]
            for j, (lhs, e) in enumerate(s["assigns"]):
                if j:
                    toks.append(",")
                toks += [lhs, "="] + (etoks(e) if not fast else operand(e))
            toks.append(";")
            items.append(toks)
        else:
            toks = [s["type"], s["inst"], "("]
            first = True
            for p, n in s["pins"]:
                if n == "__omit__":
                    continue
                if not first:
                    toks.append(",")
                first = False
                toks += [".", p, "("]
                if n is not None:
                    toks += operand(n)
                toks.append(")")
            if first:
                # all pins omitted: not expressible with named ports; connect nothing explicitly
                p0 = s["pins"][0][0]
                toks += [".", p0, "(", ")"]
            toks.append(")")
            toks.append(";")
            if not fast and bb_open.get(s["type"]) is not None and rng.random() < 0.5:
                # several instances of one cell in one statement:  ff i0 (...), i1 (...);
                prev = bb_open[s["type"]]
                prev[-1:] = [","] + toks[1:]
                if nl.get("_stats") is not None:
                    nl["_stats"]["multi_instance_blackbox_statement"] = nl["_stats"].get("multi_instance_blackbox_statement", 0) + 1
            else:
                items.append(toks)
                bb_open[s["type"]] = toks
    body = decls + items
    if shuffle:
        if rng.random() < 0.5:
            rng.shuffle(body)  # declarations anywhere, use before definition
        else:
            rng.shuffle(items)
            body = decls + items
    ports = list(nl["inputs"]) + list(nl["outputs"])
    neg = nl.get("neg")
    if neg == "extra_port":
        ports.append("zz_extra")
    elif neg == "missing_port_input":
        ports.remove(nl["inputs"][-1])
    elif neg == "missing_port_output":
        ports.remove(nl["outputs"][-1])
    elif neg in ("port_renamed_input", "port_renamed_output"):
        # as many ports as declarations, but one name differs (header and body disagree in both directions)
        victim = nl["inputs"][-1] if neg.endswith("input") else nl["outputs"][-1]
        wires = [w for w in nl["wires"] if w not in ports]
        ports[ports.index(victim)] = wires[0] if wires and rng.random() < 0.5 else "zz_other"
    elif neg == "wire_only_port":
        # a port that is declared only as a wire (no direction)
        cand = [w for w in nl["wires"] if w not in ports]
        ports.append(cand[0] if cand else "zz_w")
        if not cand:
            body.insert(0, ["wire", "zz_w", ";"])
    if shuffle:
        rng.shuffle(ports)
    if neg == "empty_port_list":
        ports = []
    elif not ports:
        ports = ["zz_none"]
    head = ["module", nl["name"], "("]
    for i, p in enumerate(ports):
        head += ([","] if i else []) + [p]
    head.append(");")
    if neg == "positional_bb":
        body.append(["ff", "zz_u", "(", nl["inputs"][0], ",", nl["inputs"][0], ",", nl["outputs"][0], ")", ";"])
    elif neg == "named_prim":
        body.append(["and", "zz_g", "(", ".", "a", "(", nl["inputs"][0], ")", ",", ".", "b", "(", nl["inputs"][0], ")", ")", ";"])
    elif neg == "unknown_module":
        body.append(["nosuchcell", "zz_c", "(", ".", "A", "(", nl["inputs"][0], ")", ")", ";"])
    parts = [join(head, with_comments=False)]
    for toks in body:
        parts.append(join(toks))
    parts.append("endmodule")
    if layout == "writer":
        text = "\n".join(("  " + p if 0 < i < len(parts) - 1 else p) for i, p in enumerate(parts)) + "\n"
    else:
        text = ""
        for p in parts:
            text += p + rng.choice(["\n", " ", "\n\n", "\n  ", "\t"]) + comment()
        text += "\n"
    r = rng.random()
    if r < 0.05:
        text = text.replace("\n", "\r\n")  # written on another platform
    elif r < 0.1:
        text = text.rstrip("\n")  # no newline at the end of the file
    return text


# ---------------------------------------------------------------------------
# evaluator
# ---------------------------------------------------------------------------

GATE_FN = {"and": "and", "nand": "nand", "or": "or", "nor": "nor", "xor": "xor", "xnor": "xnor", "buf": "buf", "not": "not"}


def evaluate(nl):
    """Returns (val, order): val[net] = bit-parallel value over free signals
    ``order`` = inputs + nets driven by blackbox outputs."""
    from rv.oracle.sim import gate_bits

    order = list(nl["inputs"]) + [w for _, w in nl["free_bb"]]
    k = len(order)
    mask = (1 << (1 << k)) - 1
    val = {n: var_bits(i, k) for i, n in enumerate(order)}
    pending = []
    for s in nl["stmts"]:
        if s["k"] == "prim":
            for inst, out, ops in s["insts"]:
                pending.append((out, ("gate", s["gate"], ops)))
        elif s["k"] == "assign":
            for lhs, e in s["assigns"]:
                pending.append((lhs, ("expr", e)))
    while pending:
        rest = []
        for out, d in pending:
            if d[0] == "gate":
                deps = [o[1] for o in d[2] if o[0] == "id"]
            else:
                deps = expr_nets(d[1])
            if all(x in val for x in deps):
                if d[0] == "gate":
                    ins = [val[o[1]] if o[0] == "id" else (mask if o[1] else 0) for o in d[2]]
                    val[out] = gate_bits(d[1], ins, mask)
                else:
                    val[out] = eval_expr(d[1], val, mask)
            else:
                rest.append((out, d))
        if len(rest) == len(pending):
            raise RuntimeError("generator produced a cyclic netlist")
        pending = rest
    return val, order, k
