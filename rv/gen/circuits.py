"""Circuit workload generator (DESIGN.md section 3.1).

A generated circuit is a plain JSON-serialisable dict ("cdict"):

    {"name": str,
     "nodes": [[name, type, is_output], ...]      # insertion order is kept
     "edges": [[u, v], ...],
     "bbs":   {inst: {"name": str, "inputs": [..], "outputs": [..]}}}

so that every case can be replayed without the RNG.  ``build`` turns it into a
circuitgraph.Circuit either on a raw networkx graph or through Circuit.add.
"""
import json
import zlib

import networkx as nx

GATES1 = ["buf", "not"]
GATESN = ["and", "nand", "or", "nor", "xor", "xnor"]
ALL_GATES = GATES1 + GATESN


# ---------------------------------------------------------------------------
# cdict helpers
# ---------------------------------------------------------------------------


P_LARGE = 0.012
COUNTS = {}  # what the generator actually produced (merged into the worker counters)
VARIANTS = True  # representation variants chosen by build(); see representation()


def new_cdict(name="top"):
    return {"name": name, "nodes": [], "edges": [], "bbs": {}}


def cd_types(cd):
    return {n: t for n, t, _ in cd["nodes"]}


def cd_preds(cd):
    p = {n: [] for n, _, _ in cd["nodes"]}
    for u, v in cd["edges"]:
        p[v].append(u)
    return p


def cd_succs(cd):
    s = {n: [] for n, _, _ in cd["nodes"]}
    for u, v in cd["edges"]:
        s[u].append(v)
    return s


def cd_outputs(cd):
    return [n for n, _, o in cd["nodes"] if o]


def cd_rename(cd, mapping):
    """Rename nodes (mapping old->new); returns a new cdict."""
    m = lambda n: mapping.get(n, n)
    out = {
        "name": cd["name"],
        "nodes": [[m(n), t, o] for n, t, o in cd["nodes"]],
        "edges": [[m(u), m(v)] for u, v in cd["edges"]],
        "bbs": {k: dict(v) for k, v in cd["bbs"].items()},
    }
    names = [n for n, _, _ in out["nodes"]]
    if len(set(names)) != len(names):
        raise ValueError("rename collides")
    return out


def cd_canon(cd):
    return {
        "name": cd["name"],
        "nodes": sorted([list(x) for x in cd["nodes"]]),
        "edges": sorted([list(x) for x in cd["edges"]]),
        "bbs": {k: {"name": v["name"], "inputs": sorted(v["inputs"]), "outputs": sorted(v["outputs"])} for k, v in sorted(cd["bbs"].items())},
    }


class Misbehaved(Exception):
    """Raised by build(): the library objects just constructed from legal arguments do not describe the cdict
    (observed while building the workload; the worker turns it into a verdict only for properties it concerns)."""

    def __init__(self, kind, detail):
        super().__init__(f"{kind}: {detail}")
        self.kind, self.detail = kind, detail


def _check_registry(c, cd):
    for inst, b in cd["bbs"].items():
        bb = c.blackboxes.get(inst)
        if bb is None or set(bb.inputs()) != set(b["inputs"]) or set(bb.outputs()) != set(b["outputs"]):
            got = None if bb is None else (sorted(bb.inputs()), sorted(bb.outputs()))
            raise Misbehaved("blackbox_definition_changed", f"BlackBox of instance {inst!r} was declared with pins {sorted(b['inputs'])} -> {sorted(b['outputs'])} but now reports {got} (the declaring code went on using its own containers)")


class NetName(str):
    """A str subclass as node name (what a parser token, numpy.str_ or an annotated net name would be)."""

    __slots__ = ()


def representation(cd):
    """Deterministic (hash-order independent) choice of a legal representation variant for this cdict, so that a
    replay of the serialised case rebuilds exactly the same objects."""
    h = zlib.crc32(json.dumps(cd_canon(cd), sort_keys=True).encode())
    r = h % 1000
    if r < 40:
        return "intflags"  # `output` attribute 1 / 0 / None instead of True / False
    if r < 70:
        return "strsub"  # node names are instances of a str subclass
    if r < 100:
        return "attrs"  # extra node and edge attributes (weight, delay, src)
    if r < 130:
        return "bbobjects"  # one BlackBox object per instance, pins given as tuples / generators / sets
    return None


def build(cg, cd, via="graph", variant="auto"):
    """Construct the library Circuit from a cdict."""
    if variant == "auto":
        variant = representation(cd) if VARIANTS else None
    if variant:
        COUNTS[f"repr:{variant}"] = COUNTS.get(f"repr:{variant}", 0) + 1
    nm = NetName if variant == "strsub" else str
    bbs = {}
    bbtypes = {}
    for j, (inst, b) in enumerate(cd["bbs"].items()):
        key = (b["name"], tuple(b["inputs"]), tuple(b["outputs"]))
        if variant == "bbobjects":
            ins, outs = list(b["inputs"]), list(b["outputs"])
            sel = (j + len(cd["nodes"])) % 4
            if sel == 0:
                ins, outs = (x for x in ins), iter(outs)
            elif sel == 1:
                ins, outs = tuple(ins), set(outs)
            elif sel == 2:
                pass
            else:
                ins, outs = set(ins), set(outs)
            bbs[inst] = cg.BlackBox(b["name"], ins, outs)
            if isinstance(outs, set):
                # the caller goes on using its own working sets (e.g. to declare the next cell of a family)
                outs.add("zz_later_out")
                if isinstance(ins, set):
                    ins.clear()
            continue
        if key not in bbtypes:
            bbtypes[key] = cg.BlackBox(b["name"], list(b["inputs"]), list(b["outputs"]))
        bbs[inst] = bbtypes[key]

    def flag(o, j):
        if variant == "intflags":
            return 1 if o else (0, None)[j % 2]
        return bool(o)

    if via in ("graph", "sparse"):
        g = nx.DiGraph()
        for j, (n, t, o) in enumerate(cd["nodes"]):
            if via == "sparse" and not o and (t == "input" or len(n) % 2 == 0):
                # like the fast parser: nodes that are not outputs may lack the `output` attribute
                g.add_node(nm(n), type=t)
            else:
                g.add_node(nm(n), type=t, output=flag(o, j))
            if variant == "attrs":
                g.nodes[n]["src"] = f"line {j}"
                g.nodes[n]["weight"] = 3 + j
        for j, (u, v) in enumerate(cd["edges"]):
            if variant == "attrs":
                g.add_edge(nm(u), nm(v), weight=0.25 + (j % 5), delay=j)
            else:
                g.add_edge(nm(u), nm(v))
        c = cg.Circuit(name=cd["name"], graph=g if len(g) else None, blackboxes=bbs or None)
        if variant == "bbobjects":
            _check_registry(c, cd)
        return c
    # via the construction API
    if variant == "bbobjects":
        for inst, b in cd["bbs"].items():
            if set(bbs[inst].inputs()) != set(b["inputs"]) or set(bbs[inst].outputs()) != set(b["outputs"]):
                raise Misbehaved("blackbox_definition_changed", f"BlackBox {b['name']!r} was declared with pins {sorted(b['inputs'])} -> {sorted(b['outputs'])} but now reports {sorted(bbs[inst].inputs())} -> {sorted(bbs[inst].outputs())} (the declaring code went on using its own containers)")
    c = cg.Circuit(name=cd["name"])
    pins = {f"{inst}.{p}" for inst, b in cd["bbs"].items() for p in b["inputs"] + b["outputs"]}
    for j, (n, t, o) in enumerate(cd["nodes"]):
        if n in pins:
            continue
        c.add(nm(n), t, output=flag(o, j))
    for inst, bb in bbs.items():
        c.add_blackbox(bb, nm(inst))
    for n, t, o in cd["nodes"]:
        if n in pins and o:
            c.set_output(n, flag(True, 0)) if variant == "intflags" else c.set_output(n)
    for j, (u, v) in enumerate(cd["edges"]):
        c.connect(nm(u), nm(v))
        if variant == "attrs":
            c.graph.edges[u, v]["weight"] = 0.25 + (j % 5)
            c.graph.edges[u, v]["delay"] = j
    return c


def to_cdict(c):
    """Serialise a library Circuit (raw graph data only)."""
    g = c.graph
    return {
        "name": c.name,
        "nodes": [[n, g.nodes[n].get("type"), bool(g.nodes[n].get("output"))] for n in g.nodes],
        "edges": [[u, v] for u, v in g.edges],
        "bbs": {k: {"name": b.name, "inputs": sorted(b.input_set), "outputs": sorted(b.output_set)} for k, b in c.blackboxes.items()},
    }


# ---------------------------------------------------------------------------
# random circuits
# ---------------------------------------------------------------------------


def rand_circuit(
    rng,
    n_inputs=3,
    n_gates=6,
    types=None,
    max_fanin=4,
    p_const=0.15,
    p_single=0.15,
    p_wide=0.2,
    n_outputs=None,
    p_input_output=0.1,
    p_const_output=0.05,
    allow_x=False,
    name="top",
    shape=None,
    force=None,
    ensure_loaded=True,
    in_prefix="i",
    gate_prefix="g",
    p_large=None,
):
    """Random acyclic, lint-clean, blackbox-free circuit.

    force: optional (type, arity) that must appear at least once.
    shape: None/'random', 'chain', 'tree', 'diamond', 'wide', 'multi'.
    ensure_loaded: every non-output node gets a load or becomes an output
    (so the circuit has no dead logic unless asked otherwise).
    """
    types = list(types or ALL_GATES)
    if force is None and p_input_output > 0 and rng.random() < 0.015:
        # degenerate sizes: no gate at all, or a single gate over one or two inputs
        n_gates = rng.choice([0, 0, 1])
        n_inputs = rng.randint(1, 2)
    large = None
    if force is None and rng.random() < (P_LARGE if p_large is None else p_large):
        # sizes beyond what the ordinary classes reach: deep chains, one very wide gate, many nodes, long names
        large = rng.choice(["deep", "fat", "many", "longnames", "hub", "hub", "manyout"])
        COUNTS[f"size:{large}"] = COUNTS.get(f"size:{large}", 0) + 1
        if large == "deep":
            shape, n_gates = "chain", rng.randint(22, 40)
        elif large == "fat":
            n_gates = rng.randint(20, 45)
        elif large == "many":
            n_gates = rng.randint(66, 90)
        elif large == "hub":
            # one net with 17..80 loads
            n_gates = rng.choice([rng.randint(18, 30), rng.randint(30, 64), rng.randint(65, 82)])
        elif large == "manyout":
            n_gates = rng.randint(20, 40)
            n_outputs = rng.randint(17, min(36, n_gates))
    cd = new_cdict(name)
    shape = shape or rng.choice(["random", "random", "random", "chain", "tree", "diamond", "wide", "multi"])
    avail = []
    for i in range(max(1, n_inputs)):
        n = f"{in_prefix}{i}"
        cd["nodes"].append([n, "input", False])
        avail.append(n)
    nconst = 0
    consts = ["0", "1"] + (["x"] if allow_x else [])
    while rng.random() < p_const and nconst < 2:
        t = rng.choice(consts)
        n = f"k{nconst}"
        cd["nodes"].append([n, t, False])
        avail.append(n)
        nconst += 1
    gates = []
    forced_at = rng.randrange(max(1, n_gates)) if force else -1
    for gi in range(n_gates):
        n = f"{gate_prefix}{gi}"
        if gi == forced_at:
            t, ar = force
        elif large == "fat" and gi == n_gates - 1:
            t, ar = rng.choice(GATESN), rng.randint(17, min(40, len(avail)))
        else:
            t = rng.choice(types)
            if t in GATES1:
                ar = 1
            elif rng.random() < p_single:
                ar = 1
            elif rng.random() < p_wide:
                ar = rng.randint(3, max(3, max_fanin))
            else:
                ar = 2
        if t in GATES1:
            ar = 1
        ar = min(ar, len(avail))
        # choose fan-in according to shape
        if large == "fat" and gi == n_gates - 1:
            pool = avail
        elif shape == "chain" and gates:
            pool = [gates[-1]] + rng.sample(avail, min(len(avail), 3))
        elif shape == "tree":
            # prefer nodes without load yet
            loaded = {u for u, _ in cd["edges"]}
            unl = [a for a in avail if a not in loaded]
            pool = unl if len(unl) >= ar else avail
        elif shape == "diamond" and len(gates) >= 2:
            pool = gates[-3:] + avail[:2]
        elif shape == "wide":
            pool = avail[: max(2, len(avail) // 3)] + ([gates[-1]] if gates else [])
        elif shape == "multi" and gi >= n_gates // 2 and len(gates) > 1:
            half = [a for a in avail if a.startswith(in_prefix)][-max(1, n_inputs // 2):] + gates[n_gates // 2:]
            pool = half if len(half) >= 1 else avail
        else:
            pool = avail
        pool = list(dict.fromkeys(pool))
        if len(pool) < ar:
            pool = list(dict.fromkeys(pool + avail))
        fi = rng.sample(pool, ar)
        if shape == "chain" and gates and gates[-1] not in fi:
            fi[0] = gates[-1]
        if large == "hub" and avail[0] not in fi and gi < n_gates - 1:
            fi[0] = avail[0]
        cd["nodes"].append([n, t, False])
        for f in fi:
            cd["edges"].append([f, n])
        avail.append(n)
        gates.append(n)
    # outputs
    loaded = {u for u, _ in cd["edges"]}
    outs = set()
    if n_outputs is None:
        n_outputs = rng.randint(1, 3)
    cands = gates[:] if gates else [avail[0]]
    for n in rng.sample(cands, min(n_outputs, len(cands))):
        outs.add(n)
    if ensure_loaded:
        for n in gates:
            if n not in loaded:
                outs.add(n)
    for n, t, _ in cd["nodes"]:
        if t == "input" and rng.random() < p_input_output:
            outs.add(n)
        if t in ("0", "1") and rng.random() < p_const_output:
            outs.add(n)
    if ensure_loaded:
        # unloaded inputs/constants: attach to a multi-input gate or mark output
        loaded = {u for u, _ in cd["edges"]}
        tps = cd_types(cd)
        multi = [g for g in gates if tps[g] in GATESN]
        for n, t, _ in list(cd["nodes"]):
            if n in loaded or n in outs or t not in ("input", "0", "1", "x"):
                continue
            tgt = [g for g in multi if [n, g] not in cd["edges"]]
            if not tgt and p_input_output == 0.0 and t == "input" and gates:
                # callers that must not get an input marked as output: widen a 1-input gate
                g1 = rng.choice(gates)
                for x in cd["nodes"]:
                    if x[0] == g1 and x[1] in GATES1:
                        x[1] = "and" if x[1] == "buf" else "nand"
                        multi.append(g1)
                        tps[g1] = x[1]
                tgt = [g for g in multi if [n, g] not in cd["edges"]]
            if tgt and (rng.random() < 0.7 or (p_input_output == 0.0 and t == "input")):
                cd["edges"].append([n, rng.choice(tgt)])
            else:
                outs.add(n)
    cd["nodes"] = [[n, t, n in outs] for n, t, _ in cd["nodes"]]
    if large == "longnames":
        pad = "w" + "".join(rng.choice("abcdefghij0123456789") for _ in range(rng.randint(40, 100)))
        cd = cd_rename(cd, {n: n + pad + str(j) for j, (n, t, _) in enumerate(cd["nodes"]) if rng.random() < 0.7})
    return cd


def add_cycles(rng, cd, n_back=1):
    """Add back edges (target must be a multi-input gate; no self loops)."""
    tps = cd_types(cd)
    order = [n for n, _, _ in cd["nodes"]]
    idx = {n: i for i, n in enumerate(order)}
    multi = [n for n in order if tps[n] in GATESN]
    gates = [n for n in order if tps[n] in ALL_GATES]
    edges = {tuple(e) for e in cd["edges"]}
    cd = {**cd, "edges": [list(e) for e in cd["edges"]]}
    tries = 0
    added = 0
    while added < n_back and tries < 50 and multi and gates:
        tries += 1
        v = rng.choice(multi)
        later = [u for u in gates if idx[u] >= idx[v] and u != v]
        if not later:
            continue
        u = rng.choice(later)
        if (u, v) in edges:
            continue
        cd["edges"].append([u, v])
        edges.add((u, v))
        added += 1
    return cd


def add_blackboxes(rng, cd, n_inst=1, bbdefs=None, p_unconnected=0.0, prefix="u"):
    """Splice blackbox instances into a cdict.

    Each input pin is driven by an existing node (or left unconnected with
    probability p_unconnected); each output pin drives one fresh ``buf`` which
    is made to feed an existing multi-input gate or marked as an output.
    """
    bbdefs = bbdefs or [
        {"name": "ff", "inputs": ["clk", "d"], "outputs": ["q"]},
        {"name": "blk", "inputs": ["a", "b"], "outputs": ["y", "z"]},
        {"name": "one", "inputs": ["p"], "outputs": ["o"]},
    ]
    cd = {"name": cd["name"], "nodes": [list(x) for x in cd["nodes"]], "edges": [list(e) for e in cd["edges"]], "bbs": dict(cd["bbs"])}
    tps = cd_types(cd)
    order = [n for n, _, _ in cd["nodes"]]
    for k in range(n_inst):
        b = rng.choice(bbdefs)
        inst = f"{prefix}{k}"
        cd["bbs"][inst] = {"name": b["name"], "inputs": list(b["inputs"]), "outputs": list(b["outputs"])}
        drivers = [n for n in order if tps[n] not in ("bb_input",)]
        multi = [n for n in order if tps[n] in GATESN]
        for p in b["inputs"]:
            pin = f"{inst}.{p}"
            cd["nodes"].append([pin, "bb_input", False])
            tps[pin] = "bb_input"
            if drivers and rng.random() >= p_unconnected:
                cands = [d for d in drivers if tps[d] != "bb_output"]
                cd["edges"].append([rng.choice(cands), pin])
        for p in b["outputs"]:
            pin = f"{inst}.{p}"
            cd["nodes"].append([pin, "bb_output", False])
            tps[pin] = "bb_output"
            if rng.random() >= p_unconnected:
                w = f"{inst}_{p}_w"
                isout = not multi or rng.random() < 0.4
                cd["nodes"].append([w, "buf", isout])
                tps[w] = "buf"
                order.append(w)
                cd["edges"].append([pin, w])
                if not isout:
                    cd["edges"].append([w, rng.choice(multi)])
    return cd


def gate_arity_table(cd, table):
    preds = cd_preds(cd)
    for n, t, _ in cd["nodes"]:
        if t in ALL_GATES:
            a = len(preds[n])
            key = f"{t}/{a if a < 4 else '4+'}"
            table[key] = table.get(key, 0) + 1


# ---------------------------------------------------------------------------
# function-preserving rewrites (generator's own rules; never library transforms)
# ---------------------------------------------------------------------------


def rewrite_equiv(rng, cd, n=3, prefix="r"):
    """Return an equivalent-but-restructured copy: every original node keeps its
    name and its function of the inputs; fresh helper nodes are called r<k>."""
    nodes = [list(x) for x in cd["nodes"]]
    edges = [list(e) for e in cd["edges"]]
    names = {x[0] for x in nodes}
    cnt = [0]

    def fresh():
        while True:
            nm = f"{prefix}{cnt[0]}"
            cnt[0] += 1
            if nm not in names:
                names.add(nm)
                return nm

    def tp(n):
        for x in nodes:
            if x[0] == n:
                return x[1]

    def settype(n, t):
        for x in nodes:
            if x[0] == n:
                x[1] = t

    def preds(n):
        return [u for u, v in edges if v == n]

    for _ in range(n):
        gates = [x[0] for x in nodes if x[1] in ALL_GATES and preds(x[0])]
        if not gates:
            break
        g = rng.choice(gates)
        t = tp(g)
        ps = preds(g)
        rule = rng.choice(["demorgan", "dneg", "buf", "split_inv", "regroup"])
        if rule == "demorgan" and t in ("and", "or", "nand", "nor") and len(ps) >= 1:
            dual = {"and": "nor", "or": "nand", "nand": "or", "nor": "and"}[t]
            for p in ps:
                nn = fresh()
                nodes.append([nn, "not", False])
                edges.remove([p, g])
                edges.append([p, nn])
                edges.append([nn, g])
            settype(g, dual)
        elif rule == "dneg" and ps:
            p = rng.choice(ps)
            a, b = fresh(), fresh()
            nodes.append([a, "not", False])
            nodes.append([b, "not", False])
            edges.remove([p, g])
            edges += [[p, a], [a, b], [b, g]]
        elif rule == "buf" and ps:
            p = rng.choice(ps)
            a = fresh()
            nodes.append([a, rng.choice(["buf", "and", "or", "xor"]), False])
            edges.remove([p, g])
            edges += [[p, a], [a, g]]
        elif rule == "split_inv" and t in ("nand", "nor", "xnor") and len(ps) >= 2:
            base = {"nand": "and", "nor": "or", "xnor": "xor"}[t]
            a = fresh()
            nodes.append([a, base, False])
            for p in ps:
                edges.remove([p, g])
                edges.append([p, a])
            edges.append([a, g])
            settype(g, "not")
        elif rule == "regroup" and t in GATESN and len(ps) >= 3:
            base = {"and": "and", "nand": "and", "or": "or", "nor": "or", "xor": "xor", "xnor": "xor"}[t]
            a = fresh()
            nodes.append([a, base, False])
            p1, p2 = rng.sample(ps, 2)
            edges.remove([p1, g])
            edges.remove([p2, g])
            edges += [[p1, a], [p2, a], [a, g]]
    return {"name": cd["name"], "nodes": nodes, "edges": edges, "bbs": dict(cd["bbs"])}


def mutate_gate(rng, cd):
    """Change the type of one gate (may or may not change the function)."""
    nodes = [list(x) for x in cd["nodes"]]
    preds = cd_preds(cd)
    gates = [x for x in nodes if x[1] in ALL_GATES and preds[x[0]]]
    if not gates:
        return cd, None
    x = rng.choice(gates)
    if x[1] in GATES1:
        x[1] = "buf" if x[1] == "not" else "not"
    else:
        x[1] = rng.choice([t for t in GATESN if t != x[1]])
    return {"name": cd["name"], "nodes": nodes, "edges": [list(e) for e in cd["edges"]], "bbs": dict(cd["bbs"])}, x[0]


def shuffle_nodes(rng, cd):
    """Same circuit, node insertion order shuffled (drivers may come after their loads)."""
    nodes = [list(x) for x in cd["nodes"]]
    rng.shuffle(nodes)
    edges = [list(e) for e in cd["edges"]]
    rng.shuffle(edges)
    return {"name": cd["name"], "nodes": nodes, "edges": edges, "bbs": dict(cd["bbs"])}


def retype_sibling(rng, obj):
    """Deep copy of a case in which every embedded cdict keeps its nodes and edges but some gates get
    another type of the same arity class (multi-input <-> multi-input, buf <-> not).  Consecutive
    sibling cases expose results cached by structure (names/edges) instead of content."""
    import copy

    out = copy.deepcopy(obj)

    def walk(x):
        if isinstance(x, dict):
            if "nodes" in x and "edges" in x and "bbs" in x:
                tp = {n: t for n, t, _ in x["nodes"]}
                pinned = {v for u, v in x["edges"] if tp.get(u) == "bb_output"}  # must stay buf
                for nd in x["nodes"]:
                    if nd[0] in pinned:
                        continue
                    if nd[1] in GATESN and rng.random() < 0.5:
                        nd[1] = rng.choice([t for t in GATESN if t != nd[1]])
                    elif nd[1] in GATES1 and rng.random() < 0.3:
                        nd[1] = "buf" if nd[1] == "not" else "not"
            else:
                for v in x.values():
                    walk(v)
        elif isinstance(x, list):
            for v in x:
                walk(v)

    walk(out)
    return out


def ambiguous_names(rng, cd):
    """Names whose '_'-joins coincide although the parts differ:  (a, b_c) / (a_b, c)  as operand pairs of two gates,
    or  gate u1 reading u2_y  next to  gate u1_u2 reading y.  Returns (cdict, tag) - tag None when not applicable."""
    preds = cd_preds(cd)
    tps = cd_types(cd)
    wide = [n for n, t, _ in cd["nodes"] if t in GATESN and len(preds[n]) >= 2]
    if len(wide) < 2:
        return cd, None
    g, h = rng.sample(wide, 2)
    m = {}
    try:
        if rng.random() < 0.5:
            fg = [x for x in preds[g] if "." not in x]
            fh = [x for x in preds[h] if "." not in x and x not in fg[:2]]
            if len(fg) < 2 or len(fh) < 2:
                return cd, None
            m = {fg[0]: "a", fg[1]: "b_c", fh[0]: "a_b", fh[1]: "c"}
            tag = "operand_pairs"
        else:
            pg = [x for x in preds[g] if "." not in x and x not in (g, h)]
            ph = [x for x in preds[h] if "." not in x and x not in (g, h) and x not in pg[:1]]
            if not pg or not ph:
                return cd, None
            m = {g: "u1", pg[0]: "u2_y", h: "u1_u2", ph[0]: "y"}
            tag = "gate_and_operand"
        return cd_rename(cd, m), tag
    except ValueError:
        return cd, None


def add_shared_parity(rng, cd, n_gates=2):
    """Append wide parity gates (3-5 inputs) that share at least two operands with each other."""
    cd = {"name": cd["name"], "nodes": [list(x) for x in cd["nodes"]], "edges": [list(e) for e in cd["edges"]], "bbs": dict(cd["bbs"])}
    srcs = [n for n, t, _ in cd["nodes"] if t in ALL_GATES + ["input"]]
    if len(srcs) < 3:
        return cd
    shared = rng.sample(srcs, min(len(srcs), rng.randint(2, 3)))
    for i in range(n_gates):
        name = f"px{i}"
        if any(x[0] == name for x in cd["nodes"]):
            continue
        extra = [x for x in srcs if x not in shared]
        ops = shared + rng.sample(extra, min(len(extra), rng.randint(1, 2)))
        rng.shuffle(ops)
        cd["nodes"].append([name, rng.choice(["xor", "xnor"]), True])
        cd["edges"] += [[o, name] for o in ops]
    return cd
