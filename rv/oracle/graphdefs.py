"""Graph-theoretic definitions by own DFS on raw adjacency (no networkx algorithms)."""


def reach(adj, starts):
    """Nodes reachable from ``starts`` by >= 1 edge."""
    seen = set()
    stack = []
    for s in starts:
        stack.extend(adj[s])
    while stack:
        n = stack.pop()
        if n in seen:
            continue
        seen.add(n)
        stack.extend(adj[n])
    return seen


def proper_reach(adj, n):
    """Like networkx descendants: reachable nodes other than n itself."""
    r = reach(adj, [n])
    r.discard(n)
    return r


def has_cycle(adj):
    WHITE, GREY, BLACK = 0, 1, 2
    color = {n: WHITE for n in adj}
    for root in adj:
        if color[root] != WHITE:
            continue
        stack = [(root, iter(adj[root]))]
        color[root] = GREY
        while stack:
            n, it = stack[-1]
            for m in it:
                if color[m] == GREY:
                    return True
                if color[m] == WHITE:
                    color[m] = GREY
                    stack.append((m, iter(adj[m])))
                    break
            else:
                color[n] = BLACK
                stack.pop()
    return False


def longest_from(adj, starts):
    """Longest path length (edges) starting at any node of ``starts`` (DAG)."""
    memo = {}

    def lp(n):
        if n in memo:
            return memo[n]
        best = 0
        for m in adj[n]:
            best = max(best, 1 + lp(m))
        memo[n] = best
        return best

    return max(lp(s) for s in starts)


def levels(preds):
    """Longest path length from a source (node without predecessor) to each node."""
    memo = {}

    def lv(n):
        if n in memo:
            return memo[n]
        memo[n] = 0 if not preds[n] else 1 + max(lv(p) for p in preds[n])
        return memo[n]

    return {n: lv(n) for n in preds}


def is_topological(order, preds):
    pos = {n: i for i, n in enumerate(order)}
    if len(pos) != len(order) or set(pos) != set(preds):
        return False
    return all(pos[p] < pos[n] for n in preds for p in preds[n])


def reconvergent(succs):
    """{n | two distinct successors a != b reach a common node, each reaching itself}."""
    out = set()
    cache = {}

    def closure(a):
        if a not in cache:
            cache[a] = reach(succs, [a]) | {a}
        return cache[a]

    for n, ss in succs.items():
        ss = list(dict.fromkeys(ss))
        found = False
        for i in range(len(ss)):
            for j in range(i + 1, len(ss)):
                if closure(ss[i]) & closure(ss[j]):
                    found = True
                    break
            if found:
                break
        if found:
            out.add(n)
    return out


def separates(preds, n, cut):
    """After deleting ``cut``, no source (node without predecessor) reaches n.
    A source inside the cut counts as cut; n inside the cut separates trivially."""
    if n in cut:
        return True
    seen = set()
    stack = [n]
    while stack:
        m = stack.pop()
        if m in seen or m in cut:
            continue
        seen.add(m)
        if not preds[m]:
            return False  # walked back to a source without crossing the cut
        stack.extend(preds[m])
    return True
