"""Solver-independent evaluation of clause lists.

``model_bits(clauses, order)``: bitset (Python int) over all 2^k assignments of
the variables in ``order`` (position i <-> variable order[i]) that satisfy every
clause.  Exponential but exact; callers keep k <= ~22.

``project(bits, k, keep)``: existentially quantify the variables at positions
>= keep (they must be the top positions).

``count_projected(clauses, nv, ind)``: exact projected model count, bit-parallel
when nv is small, otherwise DPLL enumeration over the projection set.
"""
from .sim import var_bits, popcount

MAX_BITPAR_VARS = 22


def model_bits(clauses, order):
    k = len(order)
    mask = (1 << (1 << k)) - 1
    pos = {v: i for i, v in enumerate(order)}
    vb = {}
    ok = mask
    for cl in clauses:
        acc = 0
        for lit in cl:
            v = abs(lit)
            if v not in vb:
                vb[v] = var_bits(pos[v], k)
            acc |= vb[v] if lit > 0 else (vb[v] ^ mask)
        ok &= acc
        if not ok:
            break
    return ok


def xor_bits(lits, order, rhs=True):
    """Parity constraint: XOR of literals == rhs."""
    k = len(order)
    mask = (1 << (1 << k)) - 1
    pos = {v: i for i, v in enumerate(order)}
    acc = 0
    for lit in lits:
        b = var_bits(pos[abs(lit)], k)
        acc ^= b if lit > 0 else (b ^ mask)
    return acc if rhs else acc ^ mask


def project(bits, k, keep):
    """Quantify away positions keep..k-1 (top positions)."""
    while k > keep:
        half = 1 << (k - 1)
        bits = (bits & ((1 << half) - 1)) | (bits >> half)
        k -= 1
    return bits


def unit_propagate(clauses, assign):
    """Plain unit propagation.  assign: dict var->bool (mutated).
    Returns False on conflict, True otherwise."""
    changed = True
    while changed:
        changed = False
        for cl in clauses:
            unassigned = None
            n_un = 0
            sat = False
            for lit in cl:
                v = abs(lit)
                if v in assign:
                    if assign[v] == (lit > 0):
                        sat = True
                        break
                else:
                    n_un += 1
                    unassigned = lit
            if sat:
                continue
            if n_un == 0:
                return False
            if n_un == 1:
                assign[abs(unassigned)] = unassigned > 0
                changed = True
    return True


def dpll(clauses, assign=None, prefer=()):
    """Tiny recursive DPLL; returns a full model dict or None."""
    assign = dict(assign or {})
    if not unit_propagate(clauses, assign):
        return None
    # pick a variable
    pick = None
    for v in prefer:
        if v not in assign:
            pick = v
            break
    if pick is None:
        for cl in clauses:
            sat = False
            cand = None
            for lit in cl:
                v = abs(lit)
                if v in assign:
                    if assign[v] == (lit > 0):
                        sat = True
                        break
                elif cand is None:
                    cand = v
            if not sat and cand is not None:
                pick = cand
                break
    if pick is None:
        return assign
    for val in (True, False):
        a2 = dict(assign)
        a2[pick] = val
        r = dpll(clauses, a2, prefer)
        if r is not None:
            return r
    return None


def satisfiable(clauses, nv=None):
    """Second opinion used to blame the right party on a disagreement."""
    vs = sorted({abs(l) for c in clauses for l in c})
    if any(len(c) == 0 for c in clauses):
        return False
    if len(vs) <= MAX_BITPAR_VARS:
        return model_bits(clauses, vs) != 0
    return dpll(clauses) is not None


def count_projected(clauses, nv, ind, xors=()):
    """Exact number of assignments to ``ind`` extendable to a model."""
    if any(len(c) == 0 for c in clauses):
        return 0
    ind = list(dict.fromkeys(ind))
    used = {abs(l) for c in clauses for l in c} | {abs(l) for x, _ in xors for l in x}
    others = sorted(v for v in used if v not in set(ind))
    order = ind + others
    if len(order) <= MAX_BITPAR_VARS:
        bits = model_bits(clauses, order)
        for lits, rhs in xors:
            bits &= xor_bits(lits, order, rhs)
        return popcount(project(bits, len(order), len(ind)))
    if xors:
        raise ValueError("xor clauses only supported in the bit-parallel range")
    return popcount(sat_over(clauses, ind))


def sat_over(clauses, ind):
    """Bitset over the 2^|ind| assignments of ``ind`` that extend to a model.

    DPLL carried out bit-parallel across all assignments of ``ind`` at once:
    T[v]/F[v] are the sets of ind-assignments under which v is forced true/false.
    Exact for any clause list; needs no branching when the remaining variables
    are functionally determined (Tseitin encodings of acyclic circuits).
    """
    k = len(ind)
    mask = (1 << (1 << k)) - 1
    T, F = {}, {}
    for i, v in enumerate(ind):
        b = var_bits(i, k)
        T[v], F[v] = b, b ^ mask
    allv = {abs(l) for c in clauses for l in c}
    for v in allv:
        if v not in T:
            T[v], F[v] = 0, 0
    cls = [list(dict.fromkeys(c)) for c in clauses]

    def solve(T, F, live):
        """live: ind-assignments still under consideration. Returns satisfiable subset."""
        T, F = dict(T), dict(F)
        changed = True
        while changed and live:
            changed = False
            for c in cls:
                n = len(c)
                fl = [(F[l] if l > 0 else T[-l]) for l in c]
                # prefix/suffix ANDs of "literal is false"
                pre = [mask] * (n + 1)
                for i in range(n):
                    pre[i + 1] = pre[i] & fl[i]
                allf = pre[n] & live
                if allf:
                    live &= ~allf
                    changed = True
                suf = mask
                for i in range(n - 1, -1, -1):
                    others = pre[i] & suf & live
                    suf &= fl[i]
                    if others:
                        l = c[i]
                        if l > 0:
                            new = others & ~T[l]
                            if new:
                                T[l] |= new
                                changed = True
                        else:
                            new = others & ~F[-l]
                            if new:
                                F[-l] |= new
                                changed = True
                # a variable forced both ways is a conflict for those assignments
            for v in allv:
                both = T[v] & F[v] & live
                if both:
                    live &= ~both
                    changed = True
        if not live:
            return 0
        for v in allv:
            und = live & ~(T[v] | F[v])
            if und:
                # split on v for the undetermined assignments only
                done = live & ~und
                T1 = dict(T)
                T1[v] = T[v] | und
                F0 = dict(F)
                F0[v] = F[v] | und
                r = solve(T1, F, und) | solve(T, F0, und)
                # assignments already determined for v may still be undetermined elsewhere
                return r | (solve(T, F, done) if done else 0)
        return live

    return solve(T, F, mask)


def selftest(rng):
    import itertools

    for _ in range(300):
        nv = rng.randint(1, 7)
        ncl = rng.randint(0, 14)
        cls = []
        for _ in range(ncl):
            w = rng.randint(1, 3)
            cls.append([rng.choice([-1, 1]) * rng.randint(1, nv) for _ in range(w)])
        order = list(range(1, nv + 1))
        bits = model_bits(cls, order)
        n = 0
        for j, vals in enumerate(itertools.product([False, True], repeat=nv)):
            a = {i + 1: vals[nv - 1 - i] for i in range(nv)}  # var i+1 at bit i
            idx = sum((1 << i) for i in range(nv) if a[i + 1])
            ok = all(any(a[abs(l)] == (l > 0) for l in c) for c in cls)
            assert ((bits >> idx) & 1) == int(ok)
            n += ok
        assert popcount(bits) == n
        m = dpll(cls)
        assert (m is not None) == (n > 0)
        if m:
            full = {v: m.get(v, False) for v in order}
            assert all(any(full[abs(l)] == (l > 0) for l in c) for c in cls)
        keep = rng.randint(0, nv)
        pj = project(bits, nv, keep)
        # brute-force projection
        seen = set()
        for idx in range(1 << nv):
            if (bits >> idx) & 1:
                seen.add(idx & ((1 << keep) - 1))
        assert popcount(pj) == len(seen)
        assert count_projected(cls, nv, order[:keep]) == len(seen)
        so = sat_over(cls, order[:keep])
        assert so == sum(1 << i for i in seen), (cls, keep)
    return True
