"""Expected result of the hierarchical-composition calls, from plain dict/set data.

A ``State`` is (types, outputs, edges, bbs) with
  types   : dict node -> type
  outputs : set of nodes marked output
  edges   : set of (u, v)
  bbs     : dict inst -> (bbname, frozenset(inputs), frozenset(outputs))
No circuitgraph code is used.
"""
import copy


class State:
    def __init__(self, types, outputs, edges, bbs):
        self.types = dict(types)
        self.outputs = set(outputs)
        self.edges = set(edges)
        self.bbs = dict(bbs)

    @classmethod
    def of_net(cls, net):
        return cls(net.types, net.outputs, net.edges(), net.bbs)

    def copy(self):
        return copy.deepcopy(self)

    def inputs(self):
        return {n for n, t in self.types.items() if t == "input"}

    def diff(self, other):
        out = []
        if self.types != other.types:
            a, b = self.types, other.types
            d = {n: (a.get(n), b.get(n)) for n in set(a) | set(b) if a.get(n) != b.get(n)}
            out.append(f"node types (expected, actual): {dict(list(sorted(d.items()))[:5])}")
        if self.outputs != other.outputs:
            out.append(f"output marks: expected-only {sorted(self.outputs - other.outputs)[:5]} actual-only {sorted(other.outputs - self.outputs)[:5]}")
        if self.edges != other.edges:
            out.append(f"edges: expected-only {sorted(self.edges - other.edges)[:5]} actual-only {sorted(other.edges - self.edges)[:5]}")
        if self.bbs != other.bbs:
            out.append(f"registry: expected {sorted(self.bbs)} actual {sorted(other.bbs)}")
        return "; ".join(out)


def exp_add_subcircuit(parent, child, name, connections, strip_io=True):
    s = parent.copy()
    m = lambda n: f"{name}_{n}"
    cin = child.inputs()
    cout = set(child.outputs)
    for n, t in child.types.items():
        s.types[m(n)] = "buf" if (strip_io and n in cin) else t
        if n in child.outputs and not (strip_io and n in cout):
            s.outputs.add(m(n))
        else:
            s.outputs.discard(m(n))
    for u, v in child.edges:
        s.edges.add((m(u), m(v)))
    for inst, bb in child.bbs.items():
        s.bbs[f"{name}_{inst}"] = bb
    for k, tgt in (connections or {}).items():
        if k in cin:
            s.edges.add((tgt, m(k)))
        elif k in cout:
            s.edges.add((m(k), tgt))
    return s


def exp_add_blackbox(parent, bb, name, connections):
    bbname, ins, outs = bb
    s = parent.copy()
    s.bbs[name] = (bbname, frozenset(ins), frozenset(outs))
    for p in ins:
        s.types[f"{name}.{p}"] = "bb_input"
    for p in outs:
        s.types[f"{name}.{p}"] = "bb_output"
    for p, tgt in (connections or {}).items():
        if p in ins:
            s.edges.add((tgt, f"{name}.{p}"))
        else:
            s.edges.add((f"{name}.{p}", tgt))
    return s


def exp_fill_blackbox(parent, name, child):
    s = parent.copy()
    bbname, ins, outs = s.bbs.pop(name)
    ren = {f"{name}.{p}": f"{name}_{p}" for p in ins | outs}
    r = lambda n: ren.get(n, n)
    s.types = {r(n): t for n, t in s.types.items()}
    s.outputs = {r(n) for n in s.outputs}
    s.edges = {(r(u), r(v)) for u, v in s.edges}
    m = lambda n: f"{name}_{n}"
    for n, t in child.types.items():
        s.types[m(n)] = "buf" if n in ins else t
        if n in child.outputs and n not in outs:
            s.outputs.add(m(n))
        else:
            s.outputs.discard(m(n))
    for u, v in child.edges:
        s.edges.add((m(u), m(v)))
    for inst, bb in child.bbs.items():
        s.bbs[f"{name}_{inst}"] = bb
    return s


def exp_strip_blackboxes(parent, ignore_pins):
    ign = set(ignore_pins or [])
    s = State({}, set(), set(), {})
    ren = {}
    drop = set()
    for n, t in parent.types.items():
        if t in ("bb_input", "bb_output"):
            if n.split(".")[-1] in ign:
                drop.add(n)
            else:
                ren[n] = n.replace(".", "_")
    r = lambda n: ren.get(n, n)
    for n, t in parent.types.items():
        if n in drop:
            continue
        if t == "bb_input":
            s.types[r(n)] = "buf"
            s.outputs.add(r(n))
        elif t == "bb_output":
            s.types[r(n)] = "input"
        else:
            s.types[n] = t
    for n in parent.outputs:
        if n not in drop:
            s.outputs.add(r(n))
    for u, v in parent.edges:
        if u in drop or v in drop:
            continue
        s.edges.add((r(u), r(v)))
    return s, ren, drop
