"""The documented lint rules re-stated as predicates over plain data.

``violations(types, preds, succs, outputs, bbs, flags)`` returns two lists:
definite rule violations and *ambiguous* ones (situations the documentation does
not settle: a blackbox input pin has no load in the graph by construction, and an
undriven blackbox input pin is not a "gate"); callers never judge lint on a case
whose verdict depends only on ambiguous items.
"""
SUPPORTED = ("buf", "and", "or", "xor", "not", "nand", "nor", "xnor", "0", "1", "x", "input", "bb_input", "bb_output")
MULTI = ("and", "nand", "or", "nor", "xor", "xnor")
MISSING = "<missing>"


def violations(types, preds, succs, outputs, bbs, unloaded=False, undriven=True, single_input_gates=False):
    definite, ambiguous = [], []
    for n, t in types.items():
        fi, fo = preds[n], succs[n]
        if t == MISSING:
            definite.append(f"no type: {n}")
        elif t not in SUPPORTED:
            definite.append(f"unsupported type {t!r}: {n}")
        if "." in n and n.split(".")[0] not in bbs:
            definite.append(f"dotted name without instance: {n}")
        if t in ("input", "0", "1", "x", "bb_output") and fi:
            definite.append(f"fan-in on {t}: {n}")
        if t == "bb_output":
            if len(fo) > 1:
                definite.append(f"bb_output with {len(fo)} loads: {n}")
            if any(types.get(m) != "buf" for m in fo):
                definite.append(f"bb_output with non-buf load: {n}")
        if t in ("buf", "not", "bb_input") and len(fi) > 1:
            definite.append(f"{len(fi)} drivers on {t}: {n}")
        if undriven and not fi:
            if t in ("buf", "not") + MULTI:
                definite.append(f"undriven gate: {n}")
            elif t == "bb_input":
                ambiguous.append(f"undriven bb_input: {n}")
        if single_input_gates and t in MULTI and len(fi) < 2:
            definite.append(f"multi-input gate with {len(fi)} inputs: {n}")
        if unloaded and not outputs.get(n) and not fo:
            if t == "bb_input":
                ambiguous.append(f"bb_input has no load in the graph: {n}")
            else:
                definite.append(f"unloaded node: {n}")
    for inst, (_, ins, outs) in bbs.items():
        for p in ins:
            if types.get(f"{inst}.{p}") != "bb_input":
                definite.append(f"missing/mistyped pin {inst}.{p}")
        for p in outs:
            if types.get(f"{inst}.{p}") != "bb_output":
                definite.append(f"missing/mistyped pin {inst}.{p}")
    return definite, ambiguous
