"""Reference semantics for gate-level circuits (DESIGN.md section 2).

Nothing here imports circuitgraph.  A circuit is handed over as a plain
``Net`` (types, ordered predecessor lists, output marks) extracted from the raw
networkx graph.  All evaluation is *bit-parallel*: the value of a node under
all 2^k valuations of k free signals is one Python int whose bit j is the
value under valuation j (free signal i has value ``(j >> i) & 1``).
"""
from itertools import product

GATES = ("buf", "not", "and", "nand", "or", "nor", "xor", "xnor")
FREE_TYPES = ("input", "bb_output")
CONST_TYPES = ("0", "1", "x")


class Net:
    """Plain snapshot of a circuit: no library code involved."""

    def __init__(self, types, preds, outputs, name="circuit", bbs=None):
        self.types = dict(types)  # node -> type (insertion order kept)
        self.preds = {n: list(preds.get(n, ())) for n in self.types}
        self.outputs = set(outputs)
        self.name = name
        self.bbs = dict(bbs or {})  # inst -> (bbname, frozenset(in), frozenset(out))
        self.succs = {n: [] for n in self.types}
        for n, ps in self.preds.items():
            for p in ps:
                self.succs[p].append(n)

    @classmethod
    def of(cls, c):
        """Extract from a circuitgraph.Circuit using raw graph data only."""
        g = c.graph
        types = {n: g.nodes[n].get("type") for n in g.nodes}
        preds = {n: list(g.pred[n]) for n in g.nodes}
        outs = {n for n in g.nodes if g.nodes[n].get("output")}
        bbs = {
            k: (b.name, frozenset(b.input_set), frozenset(b.output_set))
            for k, b in c.blackboxes.items()
        }
        return cls(types, preds, outs, c.name, bbs)

    def nodes(self):
        return list(self.types)

    def inputs(self):
        return {n for n, t in self.types.items() if t == "input"}

    def edges(self):
        return {(p, n) for n, ps in self.preds.items() for p in ps}

    def free(self):
        """Free signals: inputs, bb_outputs, and undriven gates / pins."""
        out = []
        for n, t in self.types.items():
            if t in FREE_TYPES:
                out.append(n)
            elif t in GATES or t == "bb_input":
                if not self.preds[n]:
                    out.append(n)
        return out

    def has_x(self):
        return any(t == "x" for t in self.types.values())

    def topo(self):
        """Kahn order; returns None when cyclic."""
        indeg = {n: len(ps) for n, ps in self.preds.items()}
        ready = [n for n, d in indeg.items() if d == 0]
        order = []
        while ready:
            n = ready.pop()
            order.append(n)
            for s in self.succs[n]:
                indeg[s] -= 1
                if indeg[s] == 0:
                    ready.append(s)
        if len(order) != len(self.types):
            return None
        return order


def var_bits(i, k):
    """Bit pattern of free signal i among k (2^k bits)."""
    # pattern: blocks of 2^i zeros then 2^i ones, repeated
    block = ((1 << (1 << i)) - 1) << (1 << i)
    period = 1 << (i + 1)
    total = 1 << k
    v = 0
    # doubling construction
    v = block
    width = period
    while width < total:
        v |= v << width
        width <<= 1
    return v & ((1 << total) - 1)


def gate_bits(t, ins, mask):
    """Value of a gate of type t over bit-parallel fan-in values."""
    if t in ("buf", "bb_input"):
        (a,) = ins
        return a
    if t == "not":
        (a,) = ins
        return a ^ mask
    if t in ("and", "nand"):
        v = mask
        for a in ins:
            v &= a
        return v if t == "and" else v ^ mask
    if t in ("or", "nor"):
        v = 0
        for a in ins:
            v |= a
        return v if t == "or" else v ^ mask
    if t in ("xor", "xnor"):
        v = 0
        for a in ins:
            v ^= a
        return v if t == "xor" else v ^ mask
    raise ValueError(f"not a gate type: {t!r}")


def gate_eval(t, ins):
    """Scalar version (ins: list of bool)."""
    return bool(gate_bits(t, [1 if a else 0 for a in ins], 1))


def functions(net, order=None, fixed=None, k=None, override=None):
    """Bit-parallel functions of all nodes of an acyclic net.

    order : list of free-signal names giving bit positions (default net.free()).
            Free signals of the net missing from ``order`` must be in ``fixed``.
    fixed : dict name -> bit-parallel int (pre-assigned values for free signals,
            or *forced* values for any node: a node in ``fixed`` is not evaluated).
    override: dict node -> callable(bits_of_its_natural_value)->bits, applied after
            evaluation (used to force complements).
    Returns (vals dict, k).  Raises ValueError on 'x' constants or cycles.
    """
    if order is None:
        order = net.free()
    if k is None:
        k = len(order)
    mask = (1 << (1 << k)) - 1
    vals = {}
    for i, n in enumerate(order):
        vals[n] = var_bits(i, k)
    if fixed:
        vals.update(fixed)
    topo = net.topo()
    if topo is None:
        raise ValueError("cyclic")
    for n in topo:
        if n in vals and not (override and n in override):
            continue
        t = net.types[n]
        if n in vals:
            v = vals[n]
        elif t == "0":
            v = 0
        elif t == "1":
            v = mask
        elif t == "x":
            raise ValueError("x constant has no Boolean value")
        elif t in FREE_TYPES or not net.preds[n]:
            raise ValueError(f"free signal {n!r} has no position/fixed value")
        else:
            v = gate_bits(t, [vals[p] for p in net.preds[n]], mask)
        if override and n in override:
            v = override[n](v) & mask
        vals[n] = v
    return vals, k


def consistent_set(net, order=None):
    """All-node consistent valuations as a bitset over 2^|nodes| assignments.

    Bit j of the result is 1 iff assigning node i := (j>>i)&1 (i indexes
    ``order``, default net.nodes()) satisfies every gate/constant constraint.
    Works for cyclic nets.  'x' nodes are unconstrained (callers avoid them).
    """
    if order is None:
        order = net.nodes()
    k = len(order)
    mask = (1 << (1 << k)) - 1
    pos = {n: i for i, n in enumerate(order)}
    bits = {n: var_bits(pos[n], k) for n in order}
    ok = mask
    for n in order:
        t = net.types[n]
        if t == "0":
            ok &= bits[n] ^ mask
        elif t == "1":
            ok &= bits[n]
        elif t in FREE_TYPES or t == "x":
            pass
        elif not net.preds[n]:
            pass  # undriven gate / pin: free
        else:
            f = gate_bits(t, [bits[p] for p in net.preds[n]], mask)
            ok &= (f ^ bits[n]) ^ mask
    return ok, order


def popcount(x):
    return bin(x).count("1")


def bit_at(v, j):
    return (v >> j) & 1


def valuation_index(order, assign):
    j = 0
    for i, n in enumerate(order):
        if assign[n]:
            j |= 1 << i
    return j


def index_valuation(order, j):
    return {n: bool((j >> i) & 1) for i, n in enumerate(order)}


# ---------------------------------------------------------------------------
# Kleene three-valued evaluation (C10)
# ---------------------------------------------------------------------------

X = "X"


def kleene_gate(t, ins):
    """ins: list of 0/1/X.  Gate-by-gate Kleene semantics."""
    if t in ("buf", "bb_input"):
        return ins[0]
    if t == "not":
        return X if ins[0] == X else 1 - ins[0]
    if t in ("and", "nand"):
        if any(a == 0 for a in ins):
            v = 0
        elif any(a == X for a in ins):
            v = X
        else:
            v = 1
        if t == "nand" and v != X:
            v = 1 - v
        return v
    if t in ("or", "nor"):
        if any(a == 1 for a in ins):
            v = 1
        elif any(a == X for a in ins):
            v = X
        else:
            v = 0
        if t == "nor" and v != X:
            v = 1 - v
        return v
    if t in ("xor", "xnor"):
        if any(a == X for a in ins):
            return X
        v = sum(ins) & 1
        return v if t == "xor" else 1 - v
    raise ValueError(t)


def kleene(net, assign):
    """assign: free signal -> 0/1/X.  Returns node -> 0/1/X."""
    vals = dict(assign)
    for n in net.topo():
        if n in vals:
            continue
        t = net.types[n]
        if t == "0":
            vals[n] = 0
        elif t == "1":
            vals[n] = 1
        elif t == "x":
            vals[n] = X
        else:
            vals[n] = kleene_gate(t, [vals[p] for p in net.preds[n]])
    return vals


# ---------------------------------------------------------------------------
# scalar simulation (for large circuits / sampled valuations)
# ---------------------------------------------------------------------------


def simulate(net, assign, topo=None):
    vals = dict(assign)
    for n in topo or net.topo():
        if n in vals:
            continue
        t = net.types[n]
        if t == "0":
            vals[n] = False
        elif t == "1":
            vals[n] = True
        elif t == "x":
            raise ValueError("x")
        else:
            vals[n] = gate_eval(t, [vals[p] for p in net.preds[n]])
    return vals


def selftest():
    """Gate tables against literal truth tables; bit-parallel vs scalar."""
    tt = {
        "and": lambda xs: all(xs),
        "nand": lambda xs: not all(xs),
        "or": lambda xs: any(xs),
        "nor": lambda xs: not any(xs),
        "xor": lambda xs: sum(xs) % 2 == 1,
        "xnor": lambda xs: sum(xs) % 2 == 0,
    }
    for t, f in tt.items():
        for k in range(1, 5):
            mask = (1 << (1 << k)) - 1
            bits = gate_bits(t, [var_bits(i, k) for i in range(k)], mask)
            for j, xs in enumerate(product([0, 1], repeat=k)):
                xs = xs[::-1]  # var i is bit i of j
                j2 = sum(b << i for i, b in enumerate(xs))
                assert bit_at(bits, j2) == int(f(xs)), (t, k, xs)
                assert gate_eval(t, list(xs)) == bool(f(xs))
    # documented 1-input behaviour
    for t in ("and", "or", "xor"):
        assert gate_eval(t, [True]) is True and gate_eval(t, [False]) is False
    for t in ("nand", "nor", "xnor"):
        assert gate_eval(t, [True]) is False and gate_eval(t, [False]) is True
    assert gate_eval("buf", [True]) and not gate_eval("not", [True])
    for k in range(0, 6):
        for i in range(k):
            v = var_bits(i, k)
            for j in range(1 << k):
                assert bit_at(v, j) == (j >> i) & 1
    # kleene consistency with binary
    for t in GATES:
        ar = 1 if t in ("buf", "not") else 3
        for xs in product([0, 1], repeat=ar):
            assert kleene_gate(t, list(xs)) == int(gate_eval(t, [bool(a) for a in xs]))
        for xs in product([0, 1, X], repeat=ar):
            if X not in xs:
                continue
            res = set()
            holes = [i for i, a in enumerate(xs) if a == X]
            for fill in product([0, 1], repeat=len(holes)):
                ys = list(xs)
                for h, b in zip(holes, fill):
                    ys[h] = b
                res.add(int(gate_eval(t, [bool(a) for a in ys])))
            kv = kleene_gate(t, list(xs))
            if kv != X:
                assert res == {kv}, (t, xs)
    # small net: full adder
    n = Net(
        {"a": "input", "b": "input", "c": "input", "s": "xor", "m": "and", "n": "and", "p": "and", "co": "or"},
        {"s": ["a", "b", "c"], "m": ["a", "b"], "n": ["a", "c"], "p": ["b", "c"], "co": ["m", "n", "p"]},
        {"s", "co"},
    )
    vals, k = functions(n)
    order = n.free()
    for j in range(8):
        a = index_valuation(order, j)
        tot = a["a"] + a["b"] + a["c"]
        assert bit_at(vals["s"], j) == tot % 2 and bit_at(vals["co"], j) == tot // 2
        sv = simulate(n, a)
        assert sv["s"] == bool(tot % 2) and sv["co"] == bool(tot // 2)
    ok, order = consistent_set(n)
    assert popcount(ok) == 8
    return True
