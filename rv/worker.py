"""One monitored worker process = one PYTHONHASHSEED.

usage: python -m rv.worker --prop C01 --tier quick --seed 0 --index 3 --out F
       python -m rv.worker --prop C01 --replay CASEFILE --out F

Loops: generate case -> run the real library code with probes on -> oracle
verdict; writes one JSON result file.  A property module provides

    RULE            str    how cases are generated / what is non-trivial
    BUDGET          {"quick": {...}, "thorough": {...}}
    ANCHORS         ["sat:cnf", "circuit:Circuit.add", ...]   (for line reach)
    gen(rng, ctx)   -> JSON-serialisable case dict
    check(case, ctx)-> None; reports through ctx.violation()/ctx.count()
"""
import argparse
import hashlib
import importlib
import json
import os
import random
import signal
import sys
import time
import traceback

HERE = os.path.dirname(os.path.abspath(__file__))
VERIF = os.path.dirname(HERE)


def setup_paths(repo):
    for p in (os.path.join(VERIF, ".deps"), os.path.join(HERE, "vendor"), VERIF, repo):
        if p in sys.path:
            sys.path.remove(p)
        sys.path.insert(0, p)
    os.environ["PATH"] = os.path.join(HERE, "vendor", "bin") + os.pathsep + os.environ.get("PATH", "")
    sys.dont_write_bytecode = True


class CaseTimeout(BaseException):
    """Per-case watchdog (not an Exception subclass: library code must not swallow it)."""


class LibraryReject(Exception):
    """The library deliberately rejected the case (outside the property's domain)."""


class Ctx:
    def __init__(self, cg, tier, rng, probe):
        self.cg = cg
        self.tier = tier
        self.rng = rng
        self.probe = probe
        self.counters = {}
        self.violations = []
        self.cur_case = None
        self.cur_nontrivial = True
        self.table = {}
        self.notes = []
        self.timed_out = False

    def count(self, key, n=1):
        self.counters[key] = self.counters.get(key, 0) + n

    def violation(self, kind, detail, extra=None):
        v = {"kind": kind, "detail": str(detail)[:2000]}
        if extra:
            v["extra"] = extra
        v["case"] = self.cur_case
        self.violations.append(v)
        self.count("violations")

    def trivial(self):
        self.cur_nontrivial = False

    def reject(self, reason):
        self.count("rejected_by_library")
        self.count(f"rejected:{reason}")

    def call(self, fn, *a, **kw):
        """Run library code; returns (True, result) or (False, exception)."""
        try:
            return True, fn(*a, **kw)
        except Exception as e:  # noqa: BLE001 - the monitor observes every outcome (RecursionError included)
            if self.timed_out:
                # the per-case watchdog fired inside a C callback (ctypes wraps it into an ordinary exception)
                raise CaseTimeout() from None
            e._tb = traceback.format_exc(limit=6)
            return False, e


def case_hash(case):
    from rv.gen.circuits import cd_canon

    def canon(x):
        if isinstance(x, dict):
            if "nodes" in x and "edges" in x and "bbs" in x:
                return cd_canon(x)
            return {k: canon(v) for k, v in x.items() if not k.startswith("_")}
        if isinstance(x, list):
            return [canon(v) for v in x]
        return x

    s = json.dumps(canon(case), sort_keys=True, default=str)
    return hashlib.sha1(s.encode()).hexdigest()[:16]


def main():
    ap = argparse.ArgumentParser()
    ap.add_argument("--prop", required=True)
    ap.add_argument("--tier", default="quick")
    ap.add_argument("--seed", type=int, default=0)
    ap.add_argument("--index", type=int, default=0)
    ap.add_argument("--out", required=True)
    ap.add_argument("--replay")
    ap.add_argument("--cases", type=int)
    ap.add_argument("--secs", type=float)
    args = ap.parse_args()

    repo = os.path.realpath(os.environ.get("VERIF_REPO", "/repo"))
    setup_paths(repo)
    t0 = time.time()
    res = {
        "prop": args.prop,
        "index": args.index,
        "hashseed": os.environ.get("PYTHONHASHSEED"),
        "cases": 0,
        "hashes": [],
        "violations": [],
        "samples": [],
        "counters": {},
        "errors": [],
        "inconclusive": [],
        "table": {},
    }

    def finish(code=0):
        res["wall_s"] = round(time.time() - t0, 3)
        with open(args.out, "w") as f:
            json.dump(res, f, default=str)
        sys.exit(code)

    try:
        import circuitgraph as cg
    except Exception:  # noqa: BLE001
        res["inconclusive"].append("import of circuitgraph failed: " + traceback.format_exc(limit=3))
        finish(0)
    if not os.path.realpath(cg.__file__).startswith(repo + os.sep):
        res["inconclusive"].append(f"wrong tree imported: {cg.__file__}")
        finish(0)

    # trusted-base self-test (DESIGN 2): failure => inconclusive, never a verdict
    try:
        from rv.oracle import sim, cnfeval

        sim.selftest()
        cnfeval.selftest(random.Random(12345))
    except Exception:  # noqa: BLE001
        res["inconclusive"].append("oracle self-test failed: " + traceback.format_exc(limit=3))
        finish(0)

    from rv.monitor import Probe, function_lines

    mod = importlib.import_module(f"rv.props.{args.prop}")
    probe = Probe(os.path.dirname(os.path.realpath(cg.__file__)))
    rng = random.Random(f"{args.seed}/{args.prop}/{args.index}")
    ctx = Ctx(cg, args.tier, rng, probe)
    ctx.index = args.index
    ctx.seed = args.seed
    if hasattr(mod, "setup"):
        mod.setup(ctx)
    probe.start()

    if args.replay:
        with open(args.replay) as f:
            rp = json.load(f)
        cases = [rp["case"]]
    else:
        cases = None
    budget = dict(mod.BUDGET[args.tier])
    ncases = args.cases or budget["cases"]
    secs = args.secs or budget["secs"]
    seen = set()
    i = 0
    prev_case = None
    case_limit = float(os.environ.get("VERIF_CASE_SECS", budget.get("case_secs", 15)))

    def on_alarm(signum, frame):
        ctx.timed_out = True
        raise CaseTimeout()

    signal.signal(signal.SIGALRM, on_alarm)
    while True:
        if cases is not None:
            if i >= len(cases):
                break
            case = cases[i]
        else:
            if i >= ncases:
                break
            if time.time() - t0 > secs:
                res["cut_by_watchdog_after_cases"] = i
                break
            try:
                ctx.gen_index = i
                if getattr(mod, "SIBLINGS", False) and prev_case is not None and "lib" not in prev_case and rng.random() < 0.12:
                    from rv.gen.circuits import retype_sibling

                    case = retype_sibling(rng, prev_case)
                    ctx.count("sibling_cases")
                else:
                    case = mod.gen(rng, ctx)
                prev_case = case
            except Exception:  # noqa: BLE001
                res["errors"].append("generator: " + traceback.format_exc(limit=8))
                i += 1
                if len(res["errors"]) > 5:
                    break
                continue
        i += 1
        ctx.cur_case = case
        ctx.cur_nontrivial = True
        nv0 = len(ctx.violations)
        tc0 = time.time()
        ctx.timed_out = False
        try:
            signal.setitimer(signal.ITIMER_REAL, case_limit)
            try:
                mod.check(case, ctx)
            finally:
                signal.setitimer(signal.ITIMER_REAL, 0)
            if ctx.timed_out:
                raise CaseTimeout()
        except CaseTimeout:
            # a case that does not finish is neither held nor violated: counted, and too many make the run inconclusive
            ctx.count("case_timeouts")
            del ctx.violations[nv0:]
            res.setdefault("timed_out_cases", []).append(case if len(res.get("timed_out_cases", [])) < 2 else None)
            ctx.cur_nontrivial = False
        except Exception as e:  # noqa: BLE001
            from rv.gen.circuits import Misbehaved

            if isinstance(e, Misbehaved):
                # observed while the workload was being built from legal arguments
                if e.kind in getattr(mod, "BUILD_VERDICTS", ()):
                    ctx.violation(e.kind, e.detail)
                else:
                    ctx.count(f"note:{e.kind}_while_building")
                    ctx.cur_nontrivial = False
            elif isinstance(e, RecursionError):
                res["errors"].append("check: RecursionError\n" + json.dumps(case, default=str)[:1500])
            else:
                res["errors"].append("check: " + traceback.format_exc(limit=8) + "\ncase=" + json.dumps(case, default=str)[:1500])
                if len(res["errors"]) > 5:
                    break
        res["cases"] += 1
        dt = time.time() - tc0
        if dt > res.get("slowest_case_s", 0):
            res["slowest_case_s"] = round(dt, 3)
            if dt > 5:
                res["slowest_case"] = case
        if ctx.cur_nontrivial:
            h = case_hash(case)
            if h not in seen:
                seen.add(h)
        if len(res["samples"]) < 2 and ctx.cur_nontrivial and len(ctx.violations) == nv0:
            res["samples"].append(case)
    probe.stop()
    if hasattr(mod, "teardown"):
        mod.teardown(ctx)
    try:
        from rv.gen.circuits import COUNTS as _gc

        for k, v in _gc.items():
            ctx.count(k, v)
    except Exception:  # noqa: BLE001
        pass
    res["hashes"] = sorted(seen)
    res["violations"] = ctx.violations[:40]
    res["violations_total"] = len(ctx.violations)
    res["counters"] = ctx.counters
    res["table"] = ctx.table
    res["notes"] = ctx.notes[:20]
    res["calls"] = probe.calls_json()
    # anchored line reach
    reach = {}
    lines = probe.lines
    for anchor in getattr(mod, "ANCHORS", []):
        modname, qual = anchor.split(":")
        try:
            obj = importlib.import_module(f"circuitgraph.{modname}")
            for part in qual.split("."):
                obj = getattr(obj, part)
            obj = getattr(obj, "__wrapped__", obj)
            fl = function_lines(obj)
            fn = os.path.realpath(obj.__code__.co_filename)
            rel = fn[len(probe.root):]
            hit = fl & lines.get(rel, set())
            reach[anchor] = {"lines": sorted(fl), "hit": sorted(hit)}
        except Exception as e:  # noqa: BLE001
            reach[anchor] = {"error": repr(e)}
    res["reach"] = reach
    try:
        from pysat import solvers as _ps

        res["solver_stats"] = dict(_ps.STATS)
    except Exception:  # noqa: BLE001
        pass
    finish(0)


if __name__ == "__main__":
    main()
