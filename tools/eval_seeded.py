#!/usr/bin/env python3
"""Validate a seeded defect and run the checks against it.

usage: tools/eval_seeded.py <dir with patch.diff demo.py meta.json> [--props C01,C19] [--tier quick] [--keep]

1. scratch worktree of /repo (outside /repo and /verif), patch must apply;
2. the repository's test-suite: set of passing tests must be the same as on the clean tree;
3. demo.py must exit 0 on the clean tree and non-zero on the patched one;
4. the listed checks (default: the property named in meta.json) run with VERIF_REPO=<patched tree>.
With --keep and (1)-(3) satisfied the directory is copied to /verif/seeded/<name>/ and
meta.json is extended with what was run and which checks caught it.
"""
import argparse
import json
import os
import re
import shutil
import subprocess
import sys
import tempfile

VERIF = os.path.dirname(os.path.dirname(os.path.abspath(__file__)))
PY = "/venv/bin/python"


def passed_tests(tree):
    r = subprocess.run([PY, "-m", "pytest", "-q", "-p", "no:cacheprovider", "--timeout=900", "-rA", "tests"], cwd=tree, capture_output=True, text=True, env=dict(os.environ, PYTHONPATH=tree, PYTHONDONTWRITEBYTECODE="1"))
    return sorted(set(re.findall(r"^PASSED (\S+)", r.stdout, re.M)))


def run_demo(tree, demo):
    r = subprocess.run([PY, demo], capture_output=True, text=True, timeout=900, env=dict(os.environ, PYTHONPATH=f"{tree}:/tmp/sat_standin", PYTHONDONTWRITEBYTECODE="1"), cwd=tempfile.gettempdir())
    return r.returncode, (r.stdout + r.stderr)[-600:]


def main():
    ap = argparse.ArgumentParser()
    ap.add_argument("src")
    ap.add_argument("--props")
    ap.add_argument("--tier", default="quick")
    ap.add_argument("--keep", action="store_true")
    ap.add_argument("--skip-validate", action="store_true")
    args = ap.parse_args()
    src = os.path.abspath(args.src)
    name = os.path.basename(src.rstrip("/"))
    meta = json.load(open(os.path.join(src, "meta.json")))
    props = args.props.split(",") if args.props else [meta["property"]]
    tmp = tempfile.mkdtemp(prefix=f"verif-seed-{name}-")
    clean, patched = os.path.join(tmp, "clean"), os.path.join(tmp, "patched")
    out = {"name": name, "property": meta["property"]}
    try:
        for wt in (clean, patched):
            subprocess.run(["git", "-C", "/repo", "worktree", "add", "--detach", wt], check=True, capture_output=True)
        r = subprocess.run(["git", "-C", patched, "apply", os.path.join(src, "patch.diff")], capture_output=True, text=True)
        if r.returncode:
            # the tree moved on since the patch was written (later fix: commits): merge it
            r = subprocess.run(["git", "-C", patched, "apply", "--3way", os.path.join(src, "patch.diff")], capture_output=True, text=True)
            if r.returncode == 0:
                out["applied_with_3way"] = True
                rebased = subprocess.run(["git", "-C", patched, "diff", "HEAD"], capture_output=True, text=True).stdout
                out["_rebased_patch"] = rebased
        if r.returncode:
            out["error"] = "patch does not apply: " + r.stderr[-300:]
            print(json.dumps(out, indent=1))
            return 2
        if not args.skip_validate:
            pc, pp = passed_tests(clean), passed_tests(patched)
            out["tests_passed_clean"], out["tests_passed_patched"] = len(pc), len(pp)
            out["tests_ok"] = set(pc) <= set(pp)
            if not out["tests_ok"]:
                out["tests_lost"] = sorted(set(pc) - set(pp))[:5]
            rc0, o0 = run_demo(clean, os.path.join(src, "demo.py"))
            rc1, o1 = run_demo(patched, os.path.join(src, "demo.py"))
            out["demo_clean_rc"], out["demo_patched_rc"] = rc0, rc1
            out["demo_ok"] = rc0 == 0 and rc1 != 0
            if not out["demo_ok"]:
                out["demo_out_clean"], out["demo_out_patched"] = o0, o1
        checks = {}
        for p in props:
            r = subprocess.run([os.path.join(VERIF, "check"), p, "--tier", args.tier], capture_output=True, text=True, env=dict(os.environ, VERIF_REPO=patched))
            kinds = sorted({l.split("kind=")[1].split(" ")[0] for l in r.stdout.splitlines() if "kind=" in l})
            checks[p] = {"rc": r.returncode, "verdict": {0: "MISSED", 1: "CAUGHT", 2: "INCONCLUSIVE"}.get(r.returncode, str(r.returncode)), "kinds": kinds[:5], "tier": args.tier, "tail": r.stdout.strip().splitlines()[-1][:200] if r.stdout.strip() else r.stderr[-200:]}
        out["checks"] = checks
        print(json.dumps({k: v for k, v in out.items() if not k.startswith("_")}, indent=1))
        valid = args.skip_validate or (out.get("tests_ok") and out.get("demo_ok"))
        if args.keep and valid:
            dst = os.path.join(VERIF, "seeded", name)
            os.makedirs(dst, exist_ok=True)
            for f in ("patch.diff", "demo.py"):
                if os.path.realpath(os.path.join(src, f)) != os.path.realpath(os.path.join(dst, f)):
                    shutil.copy(os.path.join(src, f), os.path.join(dst, f))
            if out.get("_rebased_patch"):
                # keep the patch in a form that applies to the current tree
                if not os.path.exists(os.path.join(dst, "patch.original.diff")):
                    shutil.copy(os.path.join(src, "patch.diff"), os.path.join(dst, "patch.original.diff"))
                open(os.path.join(dst, "patch.diff"), "w").write(out["_rebased_patch"])
            old = {}
            if os.path.exists(os.path.join(dst, "meta.json")):
                old = json.load(open(os.path.join(dst, "meta.json")))
            meta2 = dict(meta)
            meta2["validated"] = {k: out[k] for k in ("tests_passed_clean", "tests_passed_patched", "tests_ok", "demo_clean_rc", "demo_patched_rc", "demo_ok") if k in out} or old.get("validated")
            meta2["what_i_ran"] = "tools/eval_seeded.py: scratch worktrees of /repo (clean and patched); pytest passed-set comparison; demo.py on both; ./check <property> with VERIF_REPO=<patched tree>"
            ch = dict(old.get("checks", {}))
            for p, c in checks.items():
                ch[f"{p}:{c['tier']}"] = {k: c[k] for k in ("verdict", "kinds", "tail")}
            meta2["checks"] = ch
            json.dump(meta2, open(os.path.join(dst, "meta.json"), "w"), indent=1)
        return 0
    finally:
        for wt in (clean, patched):
            subprocess.run(["git", "-C", "/repo", "worktree", "remove", "--force", wt], capture_output=True)
        shutil.rmtree(tmp, ignore_errors=True)


if __name__ == "__main__":
    sys.exit(main())
