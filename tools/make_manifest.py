#!/usr/bin/env python3
"""Regenerates /verif/MANIFEST.json from the property modules."""
import json
import os

HERE = os.path.dirname(os.path.dirname(os.path.abspath(__file__)))
TECH = {
    "C01": "runtime monitor: exhaustive bit-parallel evaluation of the observed clause list vs reference consistent-valuation set; solve() results vs that set",
    "C02": "runtime monitor: reference-model comparison (generated AST evaluator vs reference simulation of the returned circuit) over random netlists",
    "C03": "runtime monitor: round-trip differential with reference simulation and graph identity",
    "C04": "runtime monitor: miter `sat` function vs separate reference simulation of both originals; solve() verdict vs that function",
    "C05": "runtime monitor: per-node function comparison before/after transform, flops made transparent by the harness",
    "C06": "runtime monitor: sequential history checked online against a dict/set model of each call plus functional substitution check",
    "C07": "runtime monitor: state invariant evaluated after every API call of random histories (returned or raised)",
    "C08": "runtime monitor: brute-force counting oracle; process-boundary capture of the DIMACS file handed to approxmc",
    "C09": "runtime monitor: unrolled circuit vs iterated / clocked reference simulation of the original for all states and input sequences",
    "C10": "runtime monitor: ternary circuit vs gate-by-gate Kleene evaluation for all 3^n patterns and both binary fillers",
    "C11": "runtime monitor: flip-set oracle from reference simulation vs transforms and props functions",
    "C12": "runtime monitor: own-DFS graph definitions vs Circuit query results",
    "C13": "runtime monitor: Python integer arithmetic vs reference simulation of generated blocks",
    "C14": "runtime monitor: differential fast vs full parser with AST-based attribution",
    "C15": "runtime monitor: bench AST evaluator vs returned circuit; writer round trip",
    "C16": "runtime monitor: reachability oracle vs removed set, survivors, return value, idempotence",
    "C17": "runtime monitor: internal limit_fanin call captured by rebinding; structural + functional supergate oracle",
    "C18": "runtime monitor: enumeration of all stable states vs unrolled circuit outputs",
    "C19": "runtime monitor: deep snapshot before/after every public call (return or raise), identity and scripted-edit aliasing probes",
    "C20": "runtime monitor: re-stated lint rules vs lint verdict on corrupted graphs; lint on library outputs",
}
props = [json.loads(l) for l in open(os.path.join(HERE, "properties.jsonl"))]
checks = []
for p in props:
    pid = p["id"]
    checks.append(
        {
            "property_id": pid,
            "quick_cmd": f"./check {pid} --tier quick",
            "thorough_cmd": f"./check {pid} --tier thorough",
            "evidence_file": f"/verif/evidence/{pid}.json",
            "replay_cmd_template": f"./check {pid} --replay {{path}}",
            "engine": "rv",
            "level_claimed": {
                "category": "exploration",
                "text": "Held on the executions observed: the real library code is run on thousands of generated cases under 16-256 different set-iteration orders (PYTHONHASHSEED) per run and every execution is decided by an independent executable oracle. This is the level runtime monitoring can give for a forall-inputs property; it says nothing about inputs the generators do not produce (coverage counters and gates in the evidence file show what was produced).",
                "design_ref": f"DESIGN.md section 4 ({pid})",
            },
            "level_note": "Trusted: CPython, networkx DiGraph container, the reference semantics in rv/oracle (self-tested at every worker start), the generators' own evaluators; python-sat is absent, sat.py runs against the vendored stand-in (exact bitset solver for tiny formulas, z3 behind pysat's API otherwise, every model re-checked).",
            "technique": TECH[pid],
        }
    )
man = {
    "version": 1,
    "setup_cmd": "./setup.sh",
    "hooks": {
        "guard": "CIRCUITGRAPH_VERIF",
        "enable": "no source hooks are needed: monitors are installed at run time by the harness (sys.monitoring probes, rebinding of module attributes, snapshots around API calls); the workers export CIRCUITGRAPH_VERIF=1 for completeness",
        "baseline_off_cmd": "cd /repo && /venv/bin/python -m pytest -ra -q -p no:cacheprovider --timeout=900 --continue-on-collection-errors",
        "source_commits": [],
        "add_only": True,
    },
    "engines": [
        {"name": "rv", "path": "/verif/rv", "serves_properties": [p["id"] for p in props], "kind_free_text": "runtime monitoring: generated workloads run against the real library in worker processes (one PYTHONHASHSEED each) with executable reference oracles, call/line probes and a three-valued verdict"}
    ],
    "checks": checks,
    "notes": "exit 0 = held on everything observed (KNOWN-FINDING lines allowed), exit 1 = VIOLATION, exit 2 = INCONCLUSIVE (coverage gate / dead worker / wrong tree). Known findings: /verif/known_findings.json. Seeded property-breaking changes and which check catches them: /verif/seeded/ and DESIGN.md section 9.",
    "not_applicable": [],
}
json.dump(man, open(os.path.join(HERE, "MANIFEST.json"), "w"), indent=1)
print("wrote MANIFEST.json with", len(checks), "checks")
