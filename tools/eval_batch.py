#!/usr/bin/env python3
"""usage: tools/eval_batch.py [--skip-validate] [--tier T] <seeded dir> [<seeded dir> ...]
Evaluates each directory with eval_seeded.py --keep (property from meta.json) and prints one line each."""
import json
import os
import subprocess
import sys

HERE = os.path.dirname(os.path.abspath(__file__))
args = sys.argv[1:]
extra = []
while args and args[0].startswith("--"):
    a = args.pop(0)
    extra.append(a)
    if a in ("--tier", "--props"):
        extra.append(args.pop(0))
for d in args:
    if not os.path.exists(os.path.join(d, "meta.json")):
        print(os.path.basename(d.rstrip("/")), "NO meta.json")
        continue
    r = subprocess.run(["/venv/bin/python", os.path.join(HERE, "eval_seeded.py"), d, "--keep"] + extra, capture_output=True, text=True)
    try:
        o = json.loads(r.stdout)
        print(o["name"], "tests_ok", o.get("tests_ok"), "demo_ok", o.get("demo_ok"), "3way" if o.get("applied_with_3way") else "", {p: (c["verdict"], c["kinds"][:3]) for p, c in o.get("checks", {}).items()}, o.get("error", ""), flush=True)
    except Exception as e:  # noqa: BLE001
        print(os.path.basename(d.rstrip("/")), "ERR", e, r.stdout[-300:], r.stderr[-300:], flush=True)
