#!/bin/bash
# run every check (tier $1, seed $2) and validate evidence; prints one line per property
tier=${1:-quick}; seed=${2:-0}
cd "$(dirname "$(readlink -f "$0")")/.."
for i in $(seq -w 1 20); do
  p=C$i
  start=$(date +%s)
  out=$(VERIF_SEED=$seed ./check $p --tier $tier 2>&1); rc=$?
  end=$(date +%s)
  echo "$p rc=$rc $((end-start))s :: $(echo "$out" | grep -E "^$p tier" | tail -1)"
  echo "$out" | grep -E "^(VIOLATION|INCONCLUSIVE|KNOWN-FINDING)" | cut -c1-300 | head -5
done
python3-vt - <<'PY'
import json,jsonschema,glob
sch=json.load(open('/root/.vp/EVIDENCE.schema.json'))
bad=0
for f in sorted(glob.glob('/verif/evidence/C*.json')):
    try:
        jsonschema.validate(json.load(open(f)), sch)
    except Exception as e:
        bad+=1; print('INVALID', f, str(e)[:200])
print('evidence files valid' if not bad else f'{bad} invalid evidence files')
PY
