#!/bin/bash
# every stored seeded patch must apply to the current /repo working tree
bad=0
for d in /verif/seeded/*/; do
  git -C /repo apply --check "$d/patch.diff" 2>/dev/null || { echo "NOAPPLY $(basename $d)"; bad=1; }
done
[ $bad = 0 ] && echo "all $(ls /verif/seeded | wc -l) seeded patches apply to /repo"
exit $bad
